//! Reference model `M` (DESIGN §2.5, Appendix A): a deliberately naive egglog
//! interpreter — no indexes, no timestamps, no incrementality. It reads the
//! same command text the engine receives (through the harness' own
//! s-expression reader) and covers exactly the fragment the generator emits;
//! anything else makes the run *unsupported* (inconclusive, never an alarm).

use crate::dump::{RVal, RawDb, RawRow, RawTable};
use crate::sexp::{self, Sexp};
use std::collections::{BTreeMap, BTreeSet, HashMap};

#[derive(Clone, Debug, PartialEq, Eq, Hash, PartialOrd, Ord)]
pub enum V {
    I(i64),
    B(bool),
    S(String),
    Unit,
    C(u32),
    Vec(Vec<V>),
    Set(BTreeSet<V>),
    MSet(BTreeMap<V, usize>),
    Map(BTreeMap<V, V>),
    Pair(Box<V>, Box<V>),
}

#[derive(Clone, Debug, PartialEq)]
pub enum SortK {
    Eq,
    I64,
    Bool,
    Str,
    Unit,
    Vec(String),
    Set(String),
    MSet(String),
    Map(String, String),
    Pair(String, String),
}

#[derive(Clone, Debug, PartialEq)]
pub enum Kind {
    Ctor,
    Func,
    Rel,
}

#[derive(Clone, Debug)]
pub struct Table {
    pub name: String,
    pub kind: Kind,
    pub args: Vec<String>,
    pub out: String,
    pub merge: Option<Sexp>,
    pub no_merge: bool,
    pub cost: u64,
    pub unextractable: bool,
    pub is_let: bool,
    /// key -> (value, subsumed)
    pub rows: BTreeMap<Vec<V>, (V, bool)>,
}

#[derive(Clone, Debug)]
pub struct Rule {
    pub body: Vec<Sexp>,
    pub head: Vec<Sexp>,
    pub name: Option<String>,
}

#[derive(Clone, Debug, PartialEq)]
pub enum MErr {
    /// command failed the way egglog reports it (kind as in exec::error_kind)
    Fail(String),
    /// outside the fragment the model defines
    Unsupported(String),
}

pub type MRes<T> = Result<T, MErr>;

fn unsup<T>(s: &str) -> MRes<T> {
    Err(MErr::Unsupported(s.to_string()))
}
fn fail<T>(kind: &str) -> MRes<T> {
    Err(MErr::Fail(kind.to_string()))
}

#[derive(Clone, Debug, Default)]
pub struct Model {
    pub sorts: BTreeMap<String, SortK>,
    pub tables: Vec<Table>,
    pub uf: Vec<u32>,
    pub rulesets: BTreeMap<String, Vec<Rule>>,
    pub combined: BTreeMap<String, Vec<String>>,
    pub stack: Vec<Model>,
    /// set whenever a row is added, a value changes or two classes are united
    pub changed: bool,
    pub matches_applied: u64,
}

pub type Subst = HashMap<String, V>;

impl Model {
    pub fn new() -> Model {
        let mut m = Model::default();
        m.sorts.insert("i64".into(), SortK::I64);
        m.sorts.insert("bool".into(), SortK::Bool);
        m.sorts.insert("String".into(), SortK::Str);
        m.sorts.insert("Unit".into(), SortK::Unit);
        // the default ruleset
        m.rulesets.insert("".into(), vec![]);
        m
    }

    // ---------------------------------------------------------------- union-find
    pub fn find(&self, mut x: u32) -> u32 {
        while self.uf[x as usize] != x {
            x = self.uf[x as usize];
        }
        x
    }
    fn fresh_class(&mut self) -> u32 {
        let n = self.uf.len() as u32;
        self.uf.push(n);
        n
    }
    pub fn union(&mut self, a: u32, b: u32) {
        let (ra, rb) = (self.find(a), self.find(b));
        if ra != rb {
            // handles are never observable; union by min for determinism
            let (p, c) = (ra.min(rb), ra.max(rb));
            self.uf[c as usize] = p;
            self.changed = true;
        }
    }
    pub fn canon(&self, v: &V) -> V {
        match v {
            V::C(c) => V::C(self.find(*c)),
            V::Vec(xs) => V::Vec(xs.iter().map(|x| self.canon(x)).collect()),
            V::Set(xs) => V::Set(xs.iter().map(|x| self.canon(x)).collect()),
            V::MSet(xs) => {
                let mut m = BTreeMap::new();
                for (k, n) in xs {
                    *m.entry(self.canon(k)).or_insert(0) += n;
                }
                V::MSet(m)
            }
            V::Map(xs) => V::Map(xs.iter().map(|(k, x)| (self.canon(k), self.canon(x))).collect()),
            V::Pair(a, b) => V::Pair(Box::new(self.canon(a)), Box::new(self.canon(b))),
            other => other.clone(),
        }
    }

    pub fn table(&self, name: &str) -> Option<usize> {
        self.tables.iter().position(|t| t.name == name)
    }

    fn is_eq_sort(&self, s: &str) -> bool {
        matches!(self.sorts.get(s), Some(SortK::Eq))
    }

    // ---------------------------------------------------------------- rebuild
    /// Repeat {canonicalise every row, merge rows with equal keys} until nothing changes.
    pub fn rebuild(&mut self) -> MRes<()> {
        loop {
            let mut again = false;
            for ti in 0..self.tables.len() {
                let old = std::mem::take(&mut self.tables[ti].rows);
                let mut new: BTreeMap<Vec<V>, (V, bool)> = BTreeMap::new();
                let mut pending: Vec<(Vec<V>, V, bool)> = Vec::new();
                for (k, (v, s)) in old {
                    let ck: Vec<V> = k.iter().map(|x| self.canon(x)).collect();
                    let cv = self.canon(&v);
                    if ck != k || cv != v {
                        again = true;
                    }
                    pending.push((ck, cv, s));
                }
                for (k, v, s) in pending {
                    match new.get(&k).cloned() {
                        None => {
                            new.insert(k, (v, s));
                        }
                        Some((ov, os)) => {
                            again = true;
                            let merged = self.merge_values(ti, &ov, &v)?;
                            new.insert(k, (merged, os || s));
                        }
                    }
                }
                self.tables[ti].rows = new;
            }
            if !again {
                return Ok(());
            }
        }
    }

    /// Merge two values written to one key of table `ti`.
    fn merge_values(&mut self, ti: usize, old: &V, new: &V) -> MRes<V> {
        let t = self.tables[ti].clone();
        match t.kind {
            Kind::Rel => Ok(V::Unit),
            Kind::Ctor => {
                if let (V::C(a), V::C(b)) = (old, new) {
                    self.union(*a, *b);
                    Ok(V::C(self.find(*a)))
                } else {
                    unsup("constructor with non-eq output")
                }
            }
            Kind::Func => {
                let (o, n) = (self.canon(old), self.canon(new));
                if o == n {
                    return Ok(o);
                }
                if t.no_merge {
                    return fail("Backend");
                }
                if self.is_eq_sort(&t.out) && t.merge.is_none() {
                    if let (V::C(a), V::C(b)) = (&o, &n) {
                        self.union(*a, *b);
                        return Ok(V::C(self.find(*a)));
                    }
                }
                let Some(mexpr) = &t.merge else {
                    return fail("Backend");
                };
                let mut s = Subst::new();
                s.insert("old".into(), o.clone());
                s.insert("new".into(), n);
                let r = self.eval(mexpr, &s, false)?;
                if r != o {
                    self.changed = true;
                }
                Ok(r)
            }
        }
    }

    // ---------------------------------------------------------------- expressions
    fn literal(&self, e: &Sexp) -> Option<V> {
        match e {
            Sexp::Str(s) => Some(V::S(s.clone())),
            Sexp::Atom(a) => {
                if let Ok(i) = a.parse::<i64>() {
                    Some(V::I(i))
                } else if a == "true" {
                    Some(V::B(true))
                } else if a == "false" {
                    Some(V::B(false))
                } else {
                    None
                }
            }
            Sexp::List(v) if v.is_empty() => Some(V::Unit),
            _ => None,
        }
    }

    /// Sort name of a value-producing head, used to pick container flavours.
    fn prim(&self, head: &str, args: &[V], expected_sort: Option<&str>) -> MRes<Option<V>> {
        use V::*;
        let i = |k: usize| -> MRes<i64> {
            match args.get(k) {
                Some(I(x)) => Ok(*x),
                _ => unsup("non-int argument"),
            }
        };
        let b = |k: usize| -> MRes<bool> {
            match args.get(k) {
                Some(B(x)) => Ok(*x),
                _ => unsup("non-bool argument"),
            }
        };
        let _ = expected_sort;
        Ok(match (head, args.len()) {
            ("+", 2) => i(0)?.checked_add(i(1)?).map(I),
            ("-", 2) => i(0)?.checked_sub(i(1)?).map(I),
            ("*", 2) => i(0)?.checked_mul(i(1)?).map(I),
            ("/", 2) => i(0)?.checked_div(i(1)?).map(I),
            ("%", 2) => i(0)?.checked_rem(i(1)?).map(I),
            ("min", 2) => match (&args[0], &args[1]) {
                (I(x), I(y)) => Some(I(*x.min(y))),
                _ => return unsup("min"),
            },
            ("max", 2) => match (&args[0], &args[1]) {
                (I(x), I(y)) => Some(I(*x.max(y))),
                _ => return unsup("max"),
            },
            ("<", 2) => (i(0)? < i(1)?).then_some(Unit),
            ("<=", 2) => (i(0)? <= i(1)?).then_some(Unit),
            (">", 2) => (i(0)? > i(1)?).then_some(Unit),
            (">=", 2) => (i(0)? >= i(1)?).then_some(Unit),
            ("!=", 2) => (args[0] != args[1]).then_some(Unit),
            ("and", 2) => Some(B(b(0)? && b(1)?)),
            ("or", 2) => Some(B(b(0)? || b(1)?)),
            ("not", 1) => Some(B(!b(0)?)),
            ("set-empty", 0) => Some(Set(BTreeSet::new())),
            ("set-of", _) => Some(Set(args.iter().cloned().collect())),
            ("set-insert", 2) => match &args[0] {
                Set(s) => {
                    let mut s = s.clone();
                    s.insert(args[1].clone());
                    Some(Set(s))
                }
                _ => return unsup("set-insert"),
            },
            ("set-union", 2) => match (&args[0], &args[1]) {
                (Set(x), Set(y)) => Some(Set(x.union(y).cloned().collect())),
                _ => return unsup("set-union"),
            },
            ("set-intersect", 2) => match (&args[0], &args[1]) {
                (Set(x), Set(y)) => Some(Set(x.intersection(y).cloned().collect())),
                _ => return unsup("set-intersect"),
            },
            ("vec-empty", 0) => Some(Vec(vec![])),
            ("vec-of", _) => Some(Vec(args.to_vec())),
            ("vec-push", 2) => match &args[0] {
                Vec(v) => {
                    let mut v = v.clone();
                    v.push(args[1].clone());
                    Some(Vec(v))
                }
                _ => return unsup("vec-push"),
            },
            ("multiset-of", _) => {
                let mut m = BTreeMap::new();
                for a in args {
                    *m.entry(a.clone()).or_insert(0) += 1;
                }
                Some(MSet(m))
            }
            ("map-empty", 0) => Some(Map(BTreeMap::new())),
            ("map-insert", 3) => match &args[0] {
                Map(m) => {
                    let mut m = m.clone();
                    m.insert(args[1].clone(), args[2].clone());
                    Some(Map(m))
                }
                _ => return unsup("map-insert"),
            },
            ("map-of", n) if n % 2 == 0 => {
                let mut m = BTreeMap::new();
                for kv in args.chunks(2) {
                    m.insert(kv[0].clone(), kv[1].clone());
                }
                Some(Map(m))
            }
            ("pair", 2) => Some(Pair(Box::new(args[0].clone()), Box::new(args[1].clone()))),
            _ => return unsup(&format!("primitive {head}/{}", args.len())),
        })
    }

    /// Evaluate an expression. `create`: constructors create missing rows
    /// (action context); otherwise a missing row is a failure (lookup).
    pub fn eval(&mut self, e: &Sexp, s: &Subst, create: bool) -> MRes<V> {
        if let Some(l) = self.literal(e) {
            return Ok(l);
        }
        match e {
            Sexp::Atom(name) => {
                if let Some(v) = s.get(name) {
                    return Ok(self.canon(v));
                }
                // global
                if let Some(ti) = self.table(name) {
                    if self.tables[ti].is_let {
                        if let Some((v, _)) = self.tables[ti].rows.get(&vec![]) {
                            return Ok(self.canon(v));
                        }
                    }
                }
                fail("Type")
            }
            Sexp::List(v) => {
                let Some(head) = v.first().and_then(|h| h.as_atom()) else {
                    return unsup("call head");
                };
                let mut args = Vec::new();
                for a in &v[1..] {
                    args.push(self.eval(a, s, create)?);
                }
                if let Some(ti) = self.table(head) {
                    let t = &self.tables[ti];
                    if t.args.len() != args.len() {
                        return fail("Type");
                    }
                    let key: Vec<V> = args.iter().map(|x| self.canon(x)).collect();
                    if let Some((val, _)) = self.tables[ti].rows.get(&key) {
                        return Ok(self.canon(val));
                    }
                    match (self.tables[ti].kind.clone(), create) {
                        (Kind::Ctor, true) => {
                            let c = self.fresh_class();
                            self.tables[ti].rows.insert(key, (V::C(c), false));
                            self.changed = true;
                            Ok(V::C(c))
                        }
                        (Kind::Rel, true) => {
                            self.tables[ti].rows.insert(key, (V::Unit, false));
                            self.changed = true;
                            Ok(V::Unit)
                        }
                        _ => fail("Backend"),
                    }
                } else {
                    match self.prim(head, &args, None)? {
                        Some(v) => Ok(v),
                        None => fail("Backend"),
                    }
                }
            }
            _ => unsup("expression"),
        }
    }

    // ---------------------------------------------------------------- matching
    fn is_var(&self, e: &Sexp, _s: &Subst) -> bool {
        match e {
            Sexp::Atom(a) => self.literal(e).is_none() && !(self.table(a).map(|t| self.tables[t].is_let).unwrap_or(false)),
            _ => false,
        }
    }

    /// All extensions of `s` under which pattern `p` denotes value `val`
    /// (`None`: any value; the matched value is returned alongside).
    fn unify(&mut self, p: &Sexp, val: Option<&V>, s: &Subst, incl_subsumed: bool) -> MRes<Vec<(Subst, V)>> {
        if let Some(l) = self.literal(p) {
            return Ok(match val {
                Some(v) if *v != l => vec![],
                _ => vec![(s.clone(), l)],
            });
        }
        match p {
            Sexp::Atom(name) => {
                if self.is_var(p, s) {
                    if let Some(b) = s.get(name) {
                        let b = self.canon(b);
                        return Ok(match val {
                            Some(v) if self.canon(v) != b => vec![],
                            _ => vec![(s.clone(), b)],
                        });
                    }
                    return match val {
                        Some(v) => {
                            let mut s2 = s.clone();
                            s2.insert(name.clone(), v.clone());
                            Ok(vec![(s2, v.clone())])
                        }
                        None => Err(MErr::Unsupported(format!("unbound variable {name} in pattern position"))),
                    };
                }
                // global constant
                let g = self.eval(p, s, false)?;
                Ok(match val {
                    Some(v) if self.canon(v) != g => vec![],
                    _ => vec![(s.clone(), g)],
                })
            }
            Sexp::List(v) => {
                let Some(head) = v.first().and_then(|h| h.as_atom()) else {
                    return unsup("pattern head");
                };
                if let Some(ti) = self.table(head) {
                    let rows: Vec<(Vec<V>, V, bool)> = self.tables[ti]
                        .rows
                        .iter()
                        .map(|(k, (o, sub))| (k.clone(), o.clone(), *sub))
                        .collect();
                    let pats = &v[1..];
                    if pats.len() != self.tables[ti].args.len() {
                        return fail("Type");
                    }
                    let mut out = Vec::new();
                    for (k, o, sub) in rows {
                        if sub && !incl_subsumed {
                            continue;
                        }
                        let o = self.canon(&o);
                        if let Some(want) = val {
                            if self.canon(want) != o {
                                continue;
                            }
                        }
                        let mut partial = vec![s.clone()];
                        for (pa, kv) in pats.iter().zip(k.iter()) {
                            let kv = self.canon(kv);
                            let mut next = Vec::new();
                            for ps in &partial {
                                for (s2, _) in self.unify(pa, Some(&kv), ps, incl_subsumed)? {
                                    next.push(s2);
                                }
                            }
                            partial = next;
                            if partial.is_empty() {
                                break;
                            }
                        }
                        for ps in partial {
                            out.push((ps, o.clone()));
                        }
                    }
                    Ok(out)
                } else {
                    // primitive: every argument must be evaluable under `s`
                    let mut args = Vec::new();
                    for a in &v[1..] {
                        match self.try_eval_pure(a, s, incl_subsumed) {
                            Ok(Some(x)) => args.push(x),
                            Ok(None) => return Err(MErr::Unsupported("primitive over unbound variables".into())),
                            Err(MErr::Fail(k)) if k == "__nomatch" => return Ok(vec![]),
                            Err(e) => return Err(e),
                        }
                    }
                    match self.prim(head, &args, None)? {
                        None => Ok(vec![]),
                        Some(r) => Ok(match val {
                            Some(v) if self.canon(v) != r => vec![],
                            _ => vec![(s.clone(), r)],
                        }),
                    }
                }
            }
            _ => unsup("pattern"),
        }
    }

    /// Evaluate without side effects; `None` when a variable is unbound.
    fn try_eval_pure(&mut self, e: &Sexp, s: &Subst, incl_subsumed: bool) -> MRes<Option<V>> {
        if let Some(l) = self.literal(e) {
            return Ok(Some(l));
        }
        match e {
            Sexp::Atom(name) => {
                if let Some(v) = s.get(name) {
                    return Ok(Some(self.canon(v)));
                }
                if !self.is_var(e, s) {
                    return Ok(Some(self.eval(e, s, false)?));
                }
                Ok(None)
            }
            Sexp::List(v) => {
                let Some(head) = v.first().and_then(|h| h.as_atom()) else {
                    return unsup("call head");
                };
                let mut args = Vec::new();
                for a in &v[1..] {
                    match self.try_eval_pure(a, s, incl_subsumed)? {
                        Some(x) => args.push(x),
                        None => return Ok(None),
                    }
                }
                if let Some(ti) = self.table(head) {
                    // a ground table call inside a primitive argument: plain lookup
                    let key: Vec<V> = args.iter().map(|x| self.canon(x)).collect();
                    // (a query atom like any other: subsumed rows do not match in rules)
                    return match self.tables[ti].rows.get(&key) {
                        Some((_, true)) if !incl_subsumed => Err(MErr::Fail("__nomatch".into())),
                        Some((o, _)) => Ok(Some(self.canon(o))),
                        None => Err(MErr::Fail("__nomatch".into())),
                    };
                }
                match self.prim(head, &args, None)? {
                    Some(v) => Ok(Some(v)),
                    None => Err(MErr::Fail("__nomatch".into())),
                }
            }
            _ => unsup("expression"),
        }
    }

    fn has_unbound(&self, e: &Sexp, s: &Subst) -> bool {
        match e {
            Sexp::Atom(a) => self.is_var(e, s) && !s.contains_key(a),
            Sexp::List(v) => v.iter().skip(1).any(|x| self.has_unbound(x, s)),
            _ => false,
        }
    }

    fn is_table_call(&self, e: &Sexp) -> bool {
        e.head().map(|h| self.table(h).is_some()).unwrap_or(false) && e.as_list().is_some()
    }

    /// All substitutions satisfying `facts` (as a set).
    pub fn query(&mut self, facts: &[Sexp], incl_subsumed: bool) -> MRes<Vec<Subst>> {
        let mut states: Vec<Subst> = vec![Subst::new()];
        let mut todo: Vec<Sexp> = facts.to_vec();
        // Process facts in an order in which each one is evaluable: table
        // atoms can always be enumerated; primitive facts wait for their
        // variables.
        let mut guard = 0;
        while !todo.is_empty() {
            guard += 1;
            if guard > 200 {
                return unsup("query ordering");
            }
            // choose the first processable fact
            let probe = states.first().cloned().unwrap_or_default();
            let mut pick = None;
            for (i, f) in todo.iter().enumerate() {
                let ok = if f.head() == Some("=") && f.args().len() == 2 {
                    let (a, b) = (&f.args()[0], &f.args()[1]);
                    self.is_table_call(a)
                        || self.is_table_call(b)
                        || !self.has_unbound(a, &probe)
                        || !self.has_unbound(b, &probe)
                } else {
                    self.is_table_call(f) || !self.has_unbound(f, &probe)
                };
                if ok {
                    pick = Some(i);
                    break;
                }
            }
            let Some(i) = pick else {
                return fail("Type"); // ungrounded
            };
            let f = todo.remove(i);
            let mut next = Vec::new();
            for s in &states {
                if f.head() == Some("=") && f.args().len() == 2 {
                    let (a, b) = (f.args()[0].clone(), f.args()[1].clone());
                    // evaluate/enumerate one side, unify the other with its value
                    let (first, second) = if self.is_table_call(&a) || !self.has_unbound(&a, s) {
                        (a, b)
                    } else {
                        (b, a)
                    };
                    for (s1, v) in self.unify(&first, None, s, incl_subsumed)? {
                        for (s2, _) in self.unify(&second, Some(&v), &s1, incl_subsumed)? {
                            next.push(s2);
                        }
                    }
                } else {
                    for (s1, _) in self.unify(&f, None, s, incl_subsumed)? {
                        next.push(s1);
                    }
                }
            }
            // matches are a set
            let mut seen: BTreeSet<Vec<(String, V)>> = BTreeSet::new();
            states = next
                .into_iter()
                .filter(|s| {
                    let mut k: Vec<(String, V)> = s.iter().map(|(a, b)| (a.clone(), self.canon(b))).collect();
                    k.sort();
                    seen.insert(k)
                })
                .collect();
            if states.is_empty() {
                return Ok(vec![]);
            }
            if states.len() > 20_000 {
                return unsup("too many matches");
            }
        }
        Ok(states)
    }

    // ---------------------------------------------------------------- actions
    fn set_value(&mut self, call: &Sexp, val: V, s: &Subst) -> MRes<()> {
        let Some(head) = call.head() else { return unsup("set target") };
        let Some(ti) = self.table(head) else { return fail("Type") };
        if self.tables[ti].kind != Kind::Func {
            return fail("Type");
        }
        let mut key = Vec::new();
        for a in call.args() {
            let v = self.eval(a, s, true)?;
            key.push(self.canon(&v));
        }
        if key.len() != self.tables[ti].args.len() {
            return fail("Type");
        }
        let val = self.canon(&val);
        match self.tables[ti].rows.get(&key).cloned() {
            None => {
                self.tables[ti].rows.insert(key, (val, false));
                self.changed = true;
            }
            Some((old, sub)) => {
                let merged = self.merge_values(ti, &old, &val)?;
                self.tables[ti].rows.insert(key, (merged, sub));
            }
        }
        Ok(())
    }

    pub fn run_action(&mut self, act: &Sexp, s: &mut Subst) -> MRes<()> {
        match act.head() {
            Some("union") if act.args().len() == 2 => {
                let a = self.eval(&act.args()[0], s, true)?;
                let b = self.eval(&act.args()[1], s, true)?;
                match (a, b) {
                    (V::C(x), V::C(y)) => {
                        self.union(x, y);
                        Ok(())
                    }
                    _ => fail("Type"),
                }
            }
            Some("set") if act.args().len() == 2 => {
                let v = self.eval(&act.args()[1], s, true)?;
                self.set_value(&act.args()[0], v, s)
            }
            Some("let") if act.args().len() == 2 => {
                let v = self.eval(&act.args()[1], s, true)?;
                if let Some(n) = act.args()[0].as_atom() {
                    s.insert(n.to_string(), v);
                }
                Ok(())
            }
            Some("delete") | Some("subsume") if act.args().len() == 1 => {
                let call = &act.args()[0];
                let Some(head) = call.head() else { return unsup("delete target") };
                let Some(ti) = self.table(head) else { return fail("Type") };
                let mut key = Vec::new();
                for a in call.args() {
                    let v = self.eval(a, s, true)?;
                    key.push(self.canon(&v));
                }
                if act.head() == Some("delete") {
                    self.tables[ti].rows.remove(&key);
                } else {
                    if self.tables[ti].kind == Kind::Func && self.tables[ti].merge.is_some() {
                        return fail("SubsumeMerge");
                    }
                    match self.tables[ti].rows.get_mut(&key) {
                        Some(r) => r.1 = true,
                        None => {
                            // subsume inserts the row as subsumed when absent
                            if self.tables[ti].kind == Kind::Ctor {
                                let c = self.fresh_class();
                                self.tables[ti].rows.insert(key, (V::C(c), true));
                                self.changed = true;
                            } else if self.tables[ti].kind == Kind::Rel {
                                self.tables[ti].rows.insert(key, (V::Unit, true));
                                self.changed = true;
                            }
                        }
                    }
                }
                Ok(())
            }
            Some("panic") => fail("Backend"),
            Some("extract") => unsup("extract action"),
            Some(_) => {
                // bare expression: evaluate for its effect (term insertion)
                self.eval(act, s, true).map(|_| ())
            }
            None => unsup("action"),
        }
    }

    // ---------------------------------------------------------------- rules & schedules
    pub fn rules_of(&self, rs: &str) -> MRes<Vec<Rule>> {
        if let Some(members) = self.combined.get(rs) {
            let mut v = Vec::new();
            for m in members {
                v.extend(self.rules_of(m)?);
            }
            return Ok(v);
        }
        match self.rulesets.get(rs) {
            Some(r) => Ok(r.clone()),
            None => fail("NoSuchRuleset"),
        }
    }

    /// One iteration of a ruleset: collect matches against the pre-iteration
    /// database, apply, rebuild. Returns `updated`.
    pub fn step(&mut self, rs: &str) -> MRes<bool> {
        let rules = self.rules_of(rs)?;
        let mut work: Vec<(usize, Subst)> = Vec::new();
        for (i, r) in rules.iter().enumerate() {
            for s in self.query(&r.body, false)? {
                work.push((i, s));
            }
        }
        self.changed = false;
        for (i, mut s) in work {
            self.matches_applied += 1;
            for a in &rules[i].head {
                self.run_action(a, &mut s)?;
            }
        }
        self.rebuild()?;
        Ok(self.changed)
    }

    /// Returns (updated, can_stop).
    pub fn schedule(&mut self, s: &Sexp) -> MRes<(bool, bool)> {
        match s.head() {
            Some("run") => {
                let args = s.args();
                let mut rs = "".to_string();
                let mut until: Option<Vec<Sexp>> = None;
                let mut i = 0;
                while i < args.len() {
                    match args[i].as_atom() {
                        Some(":until") => {
                            let facts: Vec<Sexp> = args[i + 1..].to_vec();
                            until = Some(facts);
                            break;
                        }
                        Some(a) => rs = a.to_string(),
                        None => return unsup("run argument"),
                    }
                    i += 1;
                }
                if let Some(f) = until {
                    if !self.query(&f, true)?.is_empty() {
                        return Ok((false, true));
                    }
                }
                let u = self.step(&rs)?;
                Ok((u, !u))
            }
            Some("repeat") => {
                let n = s.args().first().and_then(|x| x.as_int()).unwrap_or(0);
                let mut updated = false;
                for _ in 0..n {
                    let mut u = false;
                    let mut cs = true;
                    for sub in &s.args()[1..] {
                        let (u1, c1) = self.schedule(sub)?;
                        u |= u1;
                        cs &= c1;
                    }
                    updated |= u;
                    if cs {
                        break;
                    }
                }
                Ok((updated, !updated))
            }
            Some("seq") => {
                let mut updated = false;
                let mut cs = true;
                for sub in s.args() {
                    let (u, c) = self.schedule(sub)?;
                    updated |= u;
                    cs &= c;
                }
                Ok((updated, cs))
            }
            Some("saturate") => {
                let mut updated = false;
                for _ in 0..64 {
                    let mut u = false;
                    for sub in s.args() {
                        u |= self.schedule(sub)?.0;
                    }
                    updated |= u;
                    if !u {
                        return Ok((updated, !updated));
                    }
                }
                unsup("saturate did not converge in 64 iterations")
            }
            Some(other) if s.args().is_empty() && self.rulesets.contains_key(other) => {
                // bare ruleset name
                let u = self.step(other)?;
                Ok((u, !u))
            }
            _ => unsup("schedule form"),
        }
    }

    // ---------------------------------------------------------------- extraction
    /// Least-fixpoint cost of every class under the declared costs.
    pub fn class_costs(&self) -> HashMap<u32, u64> {
        let mut cost: HashMap<u32, u64> = HashMap::new();
        loop {
            let mut changed = false;
            for t in &self.tables {
                if t.kind != Kind::Ctor || t.unextractable || t.is_let {
                    continue;
                }
                for (k, (o, sub)) in &t.rows {
                    if *sub {
                        continue;
                    }
                    let V::C(c) = self.canon(o) else { continue };
                    let mut total = Some(t.cost);
                    for a in k {
                        total = match (total, self.value_cost(&self.canon(a), &cost)) {
                            (Some(x), Some(y)) => Some(x.saturating_add(y)),
                            _ => None,
                        };
                    }
                    if let Some(tc) = total {
                        match cost.get(&c) {
                            Some(old) if *old <= tc => {}
                            _ => {
                                cost.insert(c, tc);
                                changed = true;
                            }
                        }
                    }
                }
            }
            if !changed {
                return cost;
            }
        }
    }

    fn value_cost(&self, v: &V, cost: &HashMap<u32, u64>) -> Option<u64> {
        Some(match v {
            V::C(c) => *cost.get(c)?,
            V::Vec(xs) => {
                let mut t = 0u64;
                for x in xs {
                    t = t.saturating_add(self.value_cost(x, cost)?);
                }
                t
            }
            V::Set(xs) => {
                let mut t = 0u64;
                for x in xs {
                    t = t.saturating_add(self.value_cost(x, cost)?);
                }
                t
            }
            V::MSet(xs) => {
                let mut t = 0u64;
                for (x, n) in xs {
                    for _ in 0..*n {
                        t = t.saturating_add(self.value_cost(x, cost)?);
                    }
                }
                t
            }
            V::Map(xs) => {
                let mut t = 0u64;
                for (k, x) in xs {
                    t = t.saturating_add(self.value_cost(k, cost)?);
                    t = t.saturating_add(self.value_cost(x, cost)?);
                }
                t
            }
            V::Pair(a, b) => self.value_cost(a, cost)?.saturating_add(self.value_cost(b, cost)?),
            _ => 1,
        })
    }

    // ---------------------------------------------------------------- commands
    fn sort_of_decl(&self, name: &str) -> MRes<()> {
        if self.sorts.contains_key(name) {
            Ok(())
        } else {
            fail("Type")
        }
    }

    /// Execute one command. `Ok(outputs)` uses the harness' normalised output form.
    pub fn run(&mut self, text: &str) -> MRes<Vec<String>> {
        let Ok(cmd) = sexp::parse(text) else { return fail("Parse") };
        let r = self.run_cmd(&cmd);
        if r.is_err() {
            // a failed command has no promised partial effect; the caller resynchronises
        }
        r
    }

    fn declared(&self, name: &str) -> bool {
        self.table(name).is_some() || self.sorts.contains_key(name)
    }

    fn run_cmd(&mut self, cmd: &Sexp) -> MRes<Vec<String>> {
        let args = cmd.args();
        match cmd.head() {
            Some("sort") => {
                let Some(name) = args.first().and_then(|x| x.as_atom()) else { return fail("Parse") };
                if self.declared(name) {
                    return fail("Type");
                }
                let k = if args.len() == 1 {
                    SortK::Eq
                } else {
                    let d = &args[1];
                    let ps: Vec<String> = d.args().iter().filter_map(|x| x.as_atom().map(|s| s.to_string())).collect();
                    for p in &ps {
                        self.sort_of_decl(p)?;
                    }
                    match (d.head(), ps.len()) {
                        (Some("Vec"), 1) => SortK::Vec(ps[0].clone()),
                        (Some("Set"), 1) => SortK::Set(ps[0].clone()),
                        (Some("MultiSet"), 1) => SortK::MSet(ps[0].clone()),
                        (Some("Map"), 2) => SortK::Map(ps[0].clone(), ps[1].clone()),
                        (Some("Pair"), 2) => SortK::Pair(ps[0].clone(), ps[1].clone()),
                        _ => return unsup("presort"),
                    }
                };
                self.sorts.insert(name.to_string(), k);
                Ok(vec![])
            }
            Some(h @ ("constructor" | "function" | "relation")) => {
                let Some(name) = args.first().and_then(|x| x.as_atom()) else { return fail("Parse") };
                if self.declared(name) {
                    return fail("Type");
                }
                let Some(ins) = args.get(1).and_then(|x| x.as_list()) else { return fail("Parse") };
                let ins: Vec<String> = ins.iter().filter_map(|x| x.as_atom().map(|s| s.to_string())).collect();
                for i in &ins {
                    self.sort_of_decl(i)?;
                }
                let (kind, out, opt_start) = match h {
                    "relation" => (Kind::Rel, "Unit".to_string(), 2),
                    "constructor" => (Kind::Ctor, args.get(2).and_then(|x| x.as_atom()).unwrap_or("").to_string(), 3),
                    _ => (Kind::Func, args.get(2).and_then(|x| x.as_atom()).unwrap_or("").to_string(), 3),
                };
                self.sort_of_decl(&out)?;
                if kind == Kind::Ctor && !self.is_eq_sort(&out) {
                    return fail("Type");
                }
                let mut t = Table {
                    name: name.to_string(),
                    kind,
                    args: ins,
                    out,
                    merge: None,
                    no_merge: false,
                    cost: 1,
                    unextractable: false,
                    is_let: false,
                    rows: BTreeMap::new(),
                };
                let mut i = opt_start;
                while i < args.len() {
                    match args[i].as_atom() {
                        Some(":cost") => {
                            t.cost = args.get(i + 1).and_then(|x| x.as_atom()).and_then(|x| x.parse().ok()).unwrap_or(1);
                            i += 2;
                        }
                        Some(":merge") => {
                            t.merge = args.get(i + 1).cloned();
                            i += 2;
                        }
                        Some(":no-merge") => {
                            t.no_merge = true;
                            i += 1;
                        }
                        Some(":unextractable") => {
                            t.unextractable = true;
                            i += 1;
                        }
                        _ => return unsup("declaration option"),
                    }
                }
                if t.kind == Kind::Func && t.merge.is_none() && !t.no_merge && !self.is_eq_sort(&t.out) {
                    // egglog requires :merge or :no-merge for functions
                    return fail("Type");
                }
                self.tables.push(t);
                Ok(vec![])
            }
            Some("ruleset") => {
                let Some(name) = args.first().and_then(|x| x.as_atom()) else { return fail("Parse") };
                if self.rulesets.contains_key(name) || self.combined.contains_key(name) {
                    return fail("Type");
                }
                self.rulesets.insert(name.to_string(), vec![]);
                Ok(vec![])
            }
            Some("unstable-combined-ruleset") => {
                let Some(name) = args.first().and_then(|x| x.as_atom()) else { return fail("Parse") };
                let members: Vec<String> = args[1..].iter().filter_map(|x| x.as_atom().map(|s| s.to_string())).collect();
                if members.iter().any(|r| !self.rulesets.contains_key(r) && !self.combined.contains_key(r)) {
                    return fail("NoSuchRuleset");
                }
                self.combined.insert(name.to_string(), members);
                Ok(vec![])
            }
            Some("rule") => {
                let Some(body) = args.first().and_then(|x| x.as_list()) else { return fail("Parse") };
                let Some(head) = args.get(1).and_then(|x| x.as_list()) else { return fail("Parse") };
                let mut rs = "".to_string();
                let mut name = None;
                let mut i = 2;
                while i < args.len() {
                    match args[i].as_atom() {
                        Some(":ruleset") => {
                            rs = args.get(i + 1).and_then(|x| x.as_atom()).unwrap_or("").to_string();
                            i += 2;
                        }
                        Some(":naive") | Some(":no-decomp") | Some(":unsafe-seminaive") => i += 1,
                        Some(":name") => {
                            if let Some(Sexp::Str(n)) = args.get(i + 1) {
                                name = Some(n.clone());
                            }
                            i += 2;
                        }
                        _ => return unsup("rule option"),
                    }
                }
                let Some(list) = self.rulesets.get_mut(&rs) else { return fail("NoSuchRuleset") };
                list.push(Rule { body: body.to_vec(), head: head.to_vec(), name });
                Ok(vec![])
            }
            Some(h @ ("rewrite" | "birewrite")) => {
                if args.len() < 2 {
                    return fail("Parse");
                }
                let (lhs, rhs) = (args[0].clone(), args[1].clone());
                let mut rs = "".to_string();
                let mut conds: Vec<Sexp> = vec![];
                let mut subsume = false;
                let mut i = 2;
                while i < args.len() {
                    match args[i].as_atom() {
                        Some(":ruleset") => {
                            rs = args.get(i + 1).and_then(|x| x.as_atom()).unwrap_or("").to_string();
                            i += 2;
                        }
                        Some(":when") => {
                            conds = args.get(i + 1).and_then(|x| x.as_list()).map(|x| x.to_vec()).unwrap_or_default();
                            i += 2;
                        }
                        Some(":subsume") => {
                            subsume = true;
                            i += 1;
                        }
                        _ => return unsup("rewrite option"),
                    }
                }
                if !self.rulesets.contains_key(&rs) {
                    return fail("NoSuchRuleset");
                }
                let mk = |l: &Sexp, r: &Sexp, conds: &[Sexp], subsume: bool| {
                    let v = Sexp::atom("rewrite_var__");
                    let mut body = vec![Sexp::call("=", vec![v.clone(), l.clone()])];
                    body.extend(conds.iter().cloned());
                    let mut head = vec![Sexp::call("union", vec![v, r.clone()])];
                    if subsume {
                        head.push(Sexp::call("subsume", vec![l.clone()]));
                    }
                    Rule { body, head, name: None }
                };
                let r1 = mk(&lhs, &rhs, &conds, subsume);
                self.rulesets.get_mut(&rs).unwrap().push(r1);
                if h == "birewrite" {
                    let r2 = mk(&rhs, &lhs, &conds, false);
                    self.rulesets.get_mut(&rs).unwrap().push(r2);
                }
                Ok(vec![])
            }
            Some("let") => {
                let Some(name) = args.first().and_then(|x| x.as_atom()) else { return fail("Parse") };
                if self.declared(name) {
                    return fail("Type");
                }
                let snapshot = self.clone();
                let r = (|| -> MRes<()> {
                    let v = self.eval(&args[1], &Subst::new(), true)?;
                    self.rebuild()?;
                    let mut rows = BTreeMap::new();
                    rows.insert(vec![], (self.canon(&v), false));
                    self.tables.push(Table {
                        name: name.to_string(),
                        kind: Kind::Func,
                        args: vec![],
                        out: "?".into(),
                        merge: None,
                        no_merge: true,
                        cost: 1,
                        unextractable: true,
                        is_let: true,
                        rows,
                    });
                    Ok(())
                })();
                if r.is_err() {
                    *self = snapshot;
                }
                r.map(|_| vec![])
            }
            Some("union" | "set" | "delete" | "subsume" | "panic") => {
                let mut s = Subst::new();
                self.run_action(cmd, &mut s)?;
                self.rebuild()?;
                Ok(vec![])
            }
            Some("run") => {
                // (run rs n) | (run n) | (run rs n :until facts..)
                let mut rs = "".to_string();
                let mut n = 1i64;
                let mut until: Vec<Sexp> = vec![];
                let mut i = 0;
                while i < args.len() {
                    if let Some(k) = args[i].as_int() {
                        n = k;
                    } else if args[i].as_atom() == Some(":until") {
                        until = args[i + 1..].to_vec();
                        break;
                    } else if let Some(a) = args[i].as_atom() {
                        rs = a.to_string();
                    }
                    i += 1;
                }
                let mut inner = vec![Sexp::atom(&rs)];
                if !until.is_empty() {
                    inner.push(Sexp::atom(":until"));
                    inner.extend(until);
                }
                let sched = Sexp::call("repeat", vec![Sexp::int(n), Sexp::call("run", inner)]);
                let (u, _) = self.schedule(&sched)?;
                Ok(vec![format!("run updated={u}")])
            }
            Some("run-schedule") => {
                let mut updated = false;
                for s in args {
                    updated |= self.schedule(s)?.0;
                }
                Ok(vec![format!("run updated={updated}")])
            }
            Some("check") => {
                let q = self.query(args, true)?;
                if q.is_empty() { fail("Check") } else { Ok(vec![]) }
            }
            Some("fail") => {
                let snapshot = self.clone();
                match self.run_cmd(&args[0]) {
                    Err(MErr::Fail(_)) => {
                        *self = snapshot;
                        Ok(vec![])
                    }
                    Err(e) => Err(e),
                    Ok(_) => fail("ExpectFail"),
                }
            }
            Some("push") => {
                let mut snap = self.clone();
                snap.stack.clear();
                self.stack.push(snap);
                Ok(vec![])
            }
            Some("pop") => match self.stack.pop() {
                Some(mut m) => {
                    m.stack = std::mem::take(&mut self.stack);
                    *self = m;
                    Ok(vec![])
                }
                None => fail("Pop"),
            },
            Some("print-size") => match args.first().and_then(|x| x.as_atom()) {
                Some(n) => match self.table(n) {
                    Some(ti) => Ok(vec![self.tables[ti].rows.len().to_string()]),
                    None => fail("Type"),
                },
                None => {
                    let mut v: Vec<(String, usize)> = self.tables.iter().filter(|t| !t.is_let).map(|t| (t.name.clone(), t.rows.len())).collect();
                    v.sort();
                    let lines: Vec<String> = v.iter().map(|(n, s)| format!("({n} {s})")).collect();
                    if lines.len() <= 1 {
                        Ok(vec![format!("({})", lines.join(""))])
                    } else {
                        Ok(vec![format!("block lines={}", lines.len())])
                    }
                }
            },
            Some("print-function") => match args.first().and_then(|x| x.as_atom()) {
                Some(n) if self.table(n).is_some() => Ok(vec!["block lines=?".into()]),
                _ => fail("Type"),
            },
            Some("extract") => {
                let v = self.eval(&args[0], &Subst::new(), true)?;
                self.rebuild()?;
                let variants = args.get(1).and_then(|x| x.as_int()).unwrap_or(0);
                let costs = self.class_costs();
                if variants > 0 {
                    // (extract e k) reports the variants it finds, possibly none
                    return Ok(vec!["variants".into()]);
                }
                match self.value_cost(&self.canon(&v), &costs) {
                    Some(c) => Ok(vec![format!("extract cost={c}")]),
                    None => fail("Extract"),
                }
            }
            Some(other) => {
                if self.table(other).is_some() {
                    // top-level term / relation insertion
                    let mut s = Subst::new();
                    self.run_action(cmd, &mut s)?;
                    self.rebuild()?;
                    Ok(vec![])
                } else {
                    unsup(&format!("command {other}"))
                }
            }
            None => fail("Parse"),
        }
    }

    // ---------------------------------------------------------------- dump
    fn rval(&self, v: &V, sort: &str) -> RVal {
        match self.canon(v) {
            V::I(i) => RVal::I(i),
            V::B(b) => RVal::B(b),
            V::S(s) => RVal::S(s),
            V::Unit => RVal::Unit,
            V::C(c) => RVal::Class(sort.to_string(), c as u64),
            V::Vec(xs) => {
                let inner = match self.sorts.get(sort) {
                    Some(SortK::Vec(e)) => e.clone(),
                    _ => "?".into(),
                };
                RVal::Vec(xs.iter().map(|x| self.rval(x, &inner)).collect())
            }
            V::Set(xs) => {
                let inner = match self.sorts.get(sort) {
                    Some(SortK::Set(e)) => e.clone(),
                    _ => "?".into(),
                };
                let mut v: Vec<RVal> = xs.iter().map(|x| self.rval(x, &inner)).collect();
                v.sort();
                v.dedup();
                RVal::Set(v)
            }
            V::MSet(xs) => {
                let inner = match self.sorts.get(sort) {
                    Some(SortK::MSet(e)) => e.clone(),
                    _ => "?".into(),
                };
                let mut v = Vec::new();
                for (x, n) in xs {
                    for _ in 0..n {
                        v.push(self.rval(&x, &inner));
                    }
                }
                v.sort();
                RVal::MSet(v)
            }
            V::Map(xs) => {
                let (ks, vs) = match self.sorts.get(sort) {
                    Some(SortK::Map(k, v)) => (k.clone(), v.clone()),
                    _ => ("?".into(), "?".into()),
                };
                let mut v: Vec<(RVal, RVal)> = xs.iter().map(|(k, x)| (self.rval(k, &ks), self.rval(x, &vs))).collect();
                v.sort();
                RVal::Map(v)
            }
            V::Pair(a, b) => {
                let (sa, sb) = match self.sorts.get(sort) {
                    Some(SortK::Pair(a, b)) => (a.clone(), b.clone()),
                    _ => ("?".into(), "?".into()),
                };
                RVal::Pair(Box::new(self.rval(&a, &sa)), Box::new(self.rval(&b, &sb)))
            }
        }
    }

    /// The model's database in the same raw form the engine reader produces.
    pub fn raw(&self) -> RawDb {
        let mut db = RawDb::default();
        for t in &self.tables {
            let mut rows = Vec::new();
            for (k, (o, sub)) in &t.rows {
                let out_sort = if t.is_let {
                    // a global's sort is the sort of its value
                    match o {
                        V::C(_) => self.class_sort(o).unwrap_or_else(|| "?".into()),
                        _ => "?".into(),
                    }
                } else {
                    t.out.clone()
                };
                rows.push(RawRow {
                    args: k.iter().zip(t.args.iter()).map(|(v, s)| self.rval(v, s)).collect(),
                    out: self.rval(o, &out_sort),
                    subsumed: *sub,
                });
            }
            db.tables.push(RawTable {
                name: t.name.clone(),
                is_ctor: t.kind != Kind::Func,
                is_let: t.is_let,
                rows,
            });
        }
        db
    }

    /// Sort of a class: the output sort of any constructor row in it.
    fn class_sort(&self, v: &V) -> Option<String> {
        let V::C(c) = self.canon(v) else { return None };
        for t in &self.tables {
            if t.kind == Kind::Ctor {
                for (_, (o, _)) in &t.rows {
                    if self.canon(o) == V::C(c) {
                        return Some(t.out.clone());
                    }
                }
            }
        }
        None
    }

    pub fn total_rows(&self) -> usize {
        self.tables.iter().map(|t| t.rows.len()).sum()
    }
}
