//! A *case* is one fully explicit simulated execution: configuration, operation
//! list, optionally a scheduler choice trace. `gen(seed)` produces one, `check`
//! executes it, the shrinker edits it, a replay file stores it.

use serde_json::{Map, Value, json};
use std::collections::BTreeMap;

#[derive(Clone, Debug)]
pub struct Case {
    pub prop: String,
    pub seed: u64,
    /// swarm configuration (threads, knobs, policy, feature switches …)
    pub cfg: Map<String, Value>,
    /// explicit operations (egglog command text or `(@directive ..)` lines)
    pub ops: Vec<String>,
    /// scheduler choice trace to replay (threaded runs)
    pub sched: Option<Vec<u32>>,
}

impl Case {
    pub fn new(prop: &str, seed: u64) -> Case {
        Case {
            prop: prop.to_string(),
            seed,
            cfg: Map::new(),
            ops: Vec::new(),
            sched: None,
        }
    }
    pub fn to_json(&self) -> Value {
        json!({
            "prop": self.prop,
            "seed": self.seed,
            "cfg": self.cfg,
            "ops": self.ops,
            "sched": self.sched,
        })
    }
    pub fn from_json(v: &Value) -> Result<Case, String> {
        Ok(Case {
            prop: v["prop"].as_str().ok_or("prop")?.to_string(),
            seed: v["seed"].as_u64().ok_or("seed")?,
            cfg: v["cfg"].as_object().cloned().unwrap_or_default(),
            ops: v["ops"]
                .as_array()
                .ok_or("ops")?
                .iter()
                .map(|x| x.as_str().unwrap_or("").to_string())
                .collect(),
            sched: v["sched"].as_array().map(|a| {
                a.iter()
                    .map(|x| x.as_u64().unwrap_or(0) as u32)
                    .collect()
            }),
        })
    }
    pub fn cfg_u64(&self, k: &str, default: u64) -> u64 {
        self.cfg.get(k).and_then(|v| v.as_u64()).unwrap_or(default)
    }
    pub fn cfg_bool(&self, k: &str, default: bool) -> bool {
        self.cfg.get(k).and_then(|v| v.as_bool()).unwrap_or(default)
    }
    pub fn cfg_str(&self, k: &str) -> Option<&str> {
        self.cfg.get(k).and_then(|v| v.as_str())
    }
    pub fn threads(&self) -> u64 {
        self.cfg_u64("threads", 1)
    }
}

#[derive(Clone, Debug, PartialEq)]
pub enum Verdict {
    Pass,
    /// Not a verdict about the property (size bound hit, orphan class, …).
    Inconclusive(String),
    /// `class` is a stable label used for shrinking and known-finding matching.
    Violation { class: String, detail: String },
    /// The harness itself failed; never a verdict.
    HarnessError(String),
}

#[derive(Clone, Debug)]
pub struct CaseResult {
    pub verdict: Verdict,
    /// fault-kind fired counts, probe hits, oracle evaluation counts …
    pub counters: BTreeMap<String, u64>,
    /// hashes of the distinct canonical states observed
    pub states: Vec<u64>,
    /// hash over the full observation log of this run (determinism self-test)
    pub log_hash: u64,
    /// scheduler numbers for threaded runs
    pub steps: u64,
    pub handovers: u64,
    pub trace_hash: u64,
    pub trace: Option<Vec<u32>>,
    pub nontrivial: bool,
}

impl CaseResult {
    pub fn new() -> CaseResult {
        CaseResult {
            verdict: Verdict::Pass,
            counters: BTreeMap::new(),
            states: Vec::new(),
            log_hash: 0xcbf2_9ce4_8422_2325,
            steps: 0,
            handovers: 0,
            trace_hash: 0,
            trace: None,
            nontrivial: false,
        }
    }
    pub fn count(&mut self, k: &str, n: u64) {
        *self.counters.entry(k.to_string()).or_insert(0) += n;
    }
    pub fn log(&mut self, s: &str) {
        self.log_hash = crate::rng::hash_bytes(self.log_hash, s.as_bytes());
        self.log_hash = crate::rng::hash_bytes(self.log_hash, b"\n");
        if crate::VERBOSE.load(std::sync::atomic::Ordering::Relaxed) {
            eprintln!("LOG {s}");
        }
    }
    pub fn state(&mut self, h: u64) {
        if !self.states.contains(&h) {
            self.states.push(h);
        }
    }
    pub fn violation(&mut self, class: &str, detail: String) {
        if matches!(self.verdict, Verdict::Pass | Verdict::Inconclusive(_)) {
            self.verdict = Verdict::Violation {
                class: class.to_string(),
                detail,
            };
        }
    }
    pub fn inconclusive(&mut self, why: &str) {
        if matches!(self.verdict, Verdict::Pass) {
            self.verdict = Verdict::Inconclusive(why.to_string());
        }
    }
    pub fn is_violation(&self) -> bool {
        matches!(self.verdict, Verdict::Violation { .. })
    }
    pub fn to_json(&self) -> Value {
        let (v, class, detail) = match &self.verdict {
            Verdict::Pass => ("pass", String::new(), String::new()),
            Verdict::Inconclusive(w) => ("inconclusive", w.clone(), String::new()),
            Verdict::Violation { class, detail } => ("violation", class.clone(), detail.clone()),
            Verdict::HarnessError(w) => ("harness", w.clone(), String::new()),
        };
        json!({
            "verdict": v, "class": class, "detail": detail,
            "counters": self.counters, "states": self.states, "log_hash": self.log_hash,
            "steps": self.steps, "handovers": self.handovers, "trace_hash": self.trace_hash,
            "trace": self.trace, "nontrivial": self.nontrivial,
        })
    }
    pub fn from_json(v: &Value) -> Result<CaseResult, String> {
        let class = v["class"].as_str().unwrap_or("").to_string();
        let detail = v["detail"].as_str().unwrap_or("").to_string();
        let verdict = match v["verdict"].as_str().ok_or("verdict")? {
            "pass" => Verdict::Pass,
            "inconclusive" => Verdict::Inconclusive(class),
            "violation" => Verdict::Violation { class, detail },
            _ => Verdict::HarnessError(class),
        };
        let mut counters = BTreeMap::new();
        if let Some(m) = v["counters"].as_object() {
            for (k, x) in m {
                counters.insert(k.clone(), x.as_u64().unwrap_or(0));
            }
        }
        Ok(CaseResult {
            verdict,
            counters,
            states: v["states"]
                .as_array()
                .map(|a| a.iter().filter_map(|x| x.as_u64()).collect())
                .unwrap_or_default(),
            log_hash: v["log_hash"].as_u64().unwrap_or(0),
            steps: v["steps"].as_u64().unwrap_or(0),
            handovers: v["handovers"].as_u64().unwrap_or(0),
            trace_hash: v["trace_hash"].as_u64().unwrap_or(0),
            trace: v["trace"].as_array().map(|a| {
                a.iter()
                    .map(|x| x.as_u64().unwrap_or(0) as u32)
                    .collect()
            }),
            nontrivial: v["nontrivial"].as_bool().unwrap_or(false),
        })
    }
}
