//! Canonical dump `D(E)` (DESIGN Appendix B) and the consistency invariant
//! `I(E)` (DESIGN §2.5). The engine is read through its public API only.

use egglog::sort::{MapContainer, MultiSetContainer, PairContainer, SetContainer, VecContainer};
use egglog::{ArcSort, EGraph, Value};
use egglog_numeric_id::NumericId;
use std::collections::{BTreeMap, BTreeSet, HashMap};

/// A value with e-class ids made explicit (canonical ids) and containers expanded.
#[derive(Clone, Debug, PartialEq, Eq, Hash, PartialOrd, Ord)]
pub enum RVal {
    Class(String, u64),
    I(i64),
    B(bool),
    S(String),
    F(u64),
    Unit,
    Vec(Vec<RVal>),
    Set(Vec<RVal>),
    MSet(Vec<RVal>),
    Map(Vec<(RVal, RVal)>),
    Pair(Box<RVal>, Box<RVal>),
    Opaque(String),
}

#[derive(Clone, Debug)]
pub struct RawRow {
    pub args: Vec<RVal>,
    pub out: RVal,
    pub subsumed: bool,
}

#[derive(Clone, Debug)]
pub struct RawTable {
    pub name: String,
    pub is_ctor: bool,
    pub is_let: bool,
    pub rows: Vec<RawRow>,
}

#[derive(Clone, Debug, Default)]
pub struct RawDb {
    pub tables: Vec<RawTable>,
    /// violations of I(E) noticed while reading
    pub problems: Vec<String>,
    /// rows of hidden helper tables (counted for the serialize() comparison only)
    pub hidden_rows: usize,
}

fn read_val(eg: &EGraph, sort: &ArcSort, v: Value, problems: &mut Vec<String>, ctx: &str) -> RVal {
    if sort.is_eq_sort() {
        let cid = eg.value_to_class_id(sort, v).to_string();
        let n: u64 = cid.rsplit_once('-').and_then(|(_, b)| b.parse().ok()).unwrap_or(u64::MAX);
        if n != v.rep() as u64 {
            problems.push(format!(
                "non-canonical id in {ctx}: stored {} but representative is {}",
                v.rep(),
                n
            ));
        }
        return RVal::Class(sort.name().to_string(), n);
    }
    if sort.is_container_sort() {
        let inner = sort.inner_sorts();
        if let Some(c) = eg.value_to_container::<VecContainer>(v) {
            return RVal::Vec(
                c.data
                    .iter()
                    .map(|x| read_val(eg, &inner[0], *x, problems, ctx))
                    .collect(),
            );
        }
        if let Some(c) = eg.value_to_container::<SetContainer>(v) {
            let mut xs: Vec<RVal> = c
                .data
                .iter()
                .map(|x| read_val(eg, &inner[0], *x, problems, ctx))
                .collect();
            let n = xs.len();
            xs.sort();
            xs.dedup();
            if xs.len() != n {
                problems.push(format!("set with duplicate elements modulo equality in {ctx}"));
            }
            return RVal::Set(xs);
        }
        if let Some(c) = eg.value_to_container::<MultiSetContainer>(v) {
            let mut xs: Vec<RVal> = c
                .data
                .iter()
                .map(|x| read_val(eg, &inner[0], *x, problems, ctx))
                .collect();
            xs.sort();
            return RVal::MSet(xs);
        }
        if let Some(c) = eg.value_to_container::<MapContainer>(v) {
            let mut xs: Vec<(RVal, RVal)> = c
                .data
                .iter()
                .map(|(k, x)| {
                    (
                        read_val(eg, &inner[0], *k, problems, ctx),
                        read_val(eg, &inner[1], *x, problems, ctx),
                    )
                })
                .collect();
            xs.sort();
            return RVal::Map(xs);
        }
        if let Some(c) = eg.value_to_container::<PairContainer>(v) {
            return RVal::Pair(
                Box::new(read_val(eg, &inner[0], c.first, problems, ctx)),
                Box::new(read_val(eg, &inner[1], c.second, problems, ctx)),
            );
        }
        return RVal::Opaque(format!("{}#{}", sort.name(), v.rep()));
    }
    match sort.name() {
        "i64" => RVal::I(eg.value_to_base::<i64>(v)),
        "bool" => RVal::B(eg.value_to_base::<bool>(v)),
        "String" => RVal::S(eg.value_to_base::<egglog::sort::S>(v).0.clone()),
        "f64" => RVal::F(eg.value_to_base::<egglog::sort::F>(v).0.to_bits()),
        "Unit" => RVal::Unit,
        other => RVal::Opaque(format!("{other}#{}", v.rep())),
    }
}

/// Read every visible table of the engine.
pub fn read_engine(eg: &EGraph) -> RawDb {
    let mut db = RawDb::default();
    let funcs: Vec<(String, egglog::Function)> = eg
        .functions_iter()
        .map(|(n, f)| (n.clone(), f.clone()))
        .collect();
    for (name, f) in funcs {
        if f.is_hidden() {
            if !f.is_let_binding() {
                db.hidden_rows += eg.get_size(&name);
            }
            continue;
        }
        let ft = f.func_type().clone();
        let is_ctor = matches!(ft.subtype, egglog::ast::FunctionSubtype::Constructor);
        let is_relation = is_ctor && ft.output.name().starts_with(egglog::util::INTERNAL_SYMBOL_PREFIX);
        let mut rows = Vec::new();
        let mut problems = Vec::new();
        if is_ctor {
            let r = eg.constructor_enodes(&name, |en| {
                let args = en
                    .children
                    .iter()
                    .zip(ft.input.iter())
                    .map(|(v, s)| read_val(eg, s, *v, &mut problems, &name))
                    .collect();
                let mut out = read_val(eg, &ft.output, en.eclass, &mut problems, &name);
                if is_relation {
                    // a relation is a constructor into a private, non-unionable sort
                    out = RVal::Unit;
                }
                rows.push(RawRow {
                    args,
                    out,
                    subsumed: en.subsumed,
                });
            });
            if let Err(e) = r {
                problems.push(format!("name-indexed read of {name} failed: {}", e.to_string().lines().next().unwrap_or("")));
            }
        } else {
            let r = eg.function_entries(&name, |fe| {
                let args = fe
                    .inputs
                    .iter()
                    .zip(ft.input.iter())
                    .map(|(v, s)| read_val(eg, s, *v, &mut problems, &name))
                    .collect();
                let out = read_val(eg, &ft.output, fe.output, &mut problems, &name);
                rows.push(RawRow {
                    args,
                    out,
                    subsumed: fe.subsumed,
                });
            });
            if let Err(e) = r {
                problems.push(format!("name-indexed read of {name} failed: {}", e.to_string().lines().next().unwrap_or("")));
            }
        }
        db.problems.extend(problems);
        db.tables.push(RawTable {
            name,
            is_ctor,
            is_let: f.is_let_binding(),
            rows,
        });
    }
    db
}

/// The rendered, id-free database.
#[derive(Clone, Debug, Default, PartialEq)]
pub struct Dump {
    pub lines: Vec<String>,
    /// classes without any finite term (comparison would be a guess)
    pub orphans: usize,
    pub classes: usize,
    pub rows: usize,
}

impl Dump {
    pub fn text(&self) -> String {
        self.lines.join("\n")
    }
    pub fn hash(&self) -> u64 {
        crate::rng::hash_str(&self.text())
    }
    pub fn first_diff(&self, other: &Dump) -> String {
        let a: BTreeSet<&String> = self.lines.iter().collect();
        let b: BTreeSet<&String> = other.lines.iter().collect();
        let only_a: Vec<&&String> = a.difference(&b).take(4).collect();
        let only_b: Vec<&&String> = b.difference(&a).take(4).collect();
        format!("only-left={only_a:?} only-right={only_b:?}")
    }
}

fn lit(v: &RVal) -> Option<(usize, String)> {
    Some(match v {
        RVal::I(i) => (1, i.to_string()),
        RVal::B(b) => (1, b.to_string()),
        RVal::S(s) => (1, format!("{s:?}")),
        RVal::F(b) => (1, format!("f{:?}", f64::from_bits(*b))),
        RVal::Unit => (1, "()".into()),
        RVal::Opaque(s) => (1, format!("<{s}>")),
        _ => return None,
    })
}

/// Name of a value given the class names computed so far.
fn name_of(v: &RVal, names: &HashMap<(String, u64), (usize, String)>) -> Option<(usize, String)> {
    if let Some(l) = lit(v) {
        return Some(l);
    }
    match v {
        RVal::Class(s, n) => names.get(&(s.clone(), *n)).cloned(),
        RVal::Vec(xs) | RVal::Set(xs) | RVal::MSet(xs) => {
            let tag = match v {
                RVal::Vec(_) => "vec-of",
                RVal::Set(_) => "set-of",
                _ => "multiset-of",
            };
            let mut size = 1;
            let mut parts = Vec::new();
            for x in xs {
                let (s, t) = name_of(x, names)?;
                size += s;
                parts.push(t);
            }
            if !matches!(v, RVal::Vec(_)) {
                parts.sort();
            }
            Some((size, format!("({tag} {})", parts.join(" "))))
        }
        RVal::Map(xs) => {
            let mut size = 1;
            let mut parts = Vec::new();
            for (k, x) in xs {
                let (s1, t1) = name_of(k, names)?;
                let (s2, t2) = name_of(x, names)?;
                size += s1 + s2;
                parts.push(format!("[{t1} {t2}]"));
            }
            parts.sort();
            Some((size, format!("(map {})", parts.join(" "))))
        }
        RVal::Pair(a, b) => {
            let (s1, t1) = name_of(a, names)?;
            let (s2, t2) = name_of(b, names)?;
            Some((1 + s1 + s2, format!("(pair {t1} {t2})")))
        }
        _ => None,
    }
}

fn collect_classes(v: &RVal, out: &mut BTreeSet<(String, u64)>) {
    match v {
        RVal::Class(s, n) => {
            out.insert((s.clone(), *n));
        }
        RVal::Vec(xs) | RVal::Set(xs) | RVal::MSet(xs) => {
            xs.iter().for_each(|x| collect_classes(x, out))
        }
        RVal::Map(xs) => xs.iter().for_each(|(k, x)| {
            collect_classes(k, out);
            collect_classes(x, out)
        }),
        RVal::Pair(a, b) => {
            collect_classes(a, out);
            collect_classes(b, out)
        }
        _ => {}
    }
}

/// Least-term naming of every class, then id-free rendering of every row.
pub fn canonical(db: &RawDb) -> Dump {
    let mut classes = BTreeSet::new();
    for t in &db.tables {
        for r in &t.rows {
            r.args.iter().for_each(|a| collect_classes(a, &mut classes));
            collect_classes(&r.out, &mut classes);
        }
    }
    let mut names: HashMap<(String, u64), (usize, String)> = HashMap::new();
    loop {
        let mut changed = false;
        for t in &db.tables {
            if !t.is_ctor || t.is_let {
                continue;
            }
            for r in &t.rows {
                let RVal::Class(s, n) = &r.out else { continue };
                let mut size = 1;
                let mut parts = vec![t.name.clone()];
                let mut ok = true;
                for a in &r.args {
                    match name_of(a, &names) {
                        Some((sz, tx)) => {
                            size += sz;
                            parts.push(tx);
                        }
                        None => {
                            ok = false;
                            break;
                        }
                    }
                }
                if !ok {
                    continue;
                }
                let cand = (size, format!("({})", parts.join(" ")));
                let key = (s.clone(), *n);
                match names.get(&key) {
                    Some(cur) if *cur <= cand => {}
                    _ => {
                        names.insert(key, cand);
                        changed = true;
                    }
                }
            }
        }
        if !changed {
            break;
        }
    }
    let mut orphans = 0;
    // Orphans get a stable placeholder that marks the dump inconclusive.
    for c in &classes {
        if !names.contains_key(c) {
            orphans += 1;
        }
    }
    let render = |v: &RVal| -> String {
        match name_of(v, &names) {
            Some((_, t)) => t,
            None => "<orphan>".to_string(),
        }
    };
    let mut lines = Vec::new();
    let mut rows = 0;
    for t in &db.tables {
        for r in &t.rows {
            rows += 1;
            let args: Vec<String> = r.args.iter().map(render).collect();
            lines.push(format!(
                "{}{} | {} | {} | {}",
                if t.is_let { "let " } else { "" },
                t.name,
                args.join(" "),
                render(&r.out),
                if r.subsumed { "S" } else { "-" }
            ));
        }
    }
    lines.sort();
    Dump {
        lines,
        orphans,
        classes: classes.len(),
        rows,
    }
}

/// `I(E)`: unique key per table, every stored id canonical (noticed while
/// reading), congruent rows merged, `serialize()` agrees with the read API on
/// row counts.
pub fn invariant(eg: &EGraph, db: &RawDb) -> Vec<String> {
    let mut problems = db.problems.clone();
    let mut total_rows = db.hidden_rows;
    for t in &db.tables {
        let mut seen: BTreeMap<&Vec<RVal>, &RVal> = BTreeMap::new();
        for r in &t.rows {
            if !t.is_let {
                total_rows += 1;
            }
            if let Some(prev) = seen.insert(&r.args, &r.out) {
                problems.push(format!(
                    "table {} holds two rows for key {:?} (values {:?} and {:?})",
                    t.name, r.args, prev, r.out
                ));
            }
        }
        let sz = eg.get_size(&t.name);
        if sz != t.rows.len() {
            problems.push(format!(
                "table {}: get_size says {} but the scan returned {} rows",
                t.name,
                sz,
                t.rows.len()
            ));
        }
    }
    // serialize() and the read API must describe the same rows
    let ser = eg.serialize(egglog::SerializeConfig::default());
    let ser_nodes = ser
        .egraph
        .nodes
        .iter()
        .filter(|(id, _)| id.to_string().starts_with("function-"))
        .count();
    if ser.truncated_functions.is_empty()
        && ser.discarded_functions.is_empty()
        && ser_nodes != total_rows
    {
        problems.push(format!(
            "serialize() describes {ser_nodes} function nodes, the read API {total_rows} rows"
        ));
    }
    problems
}
