//! Fault kinds F4/F5/F6 (DESIGN §2.4): commands that die while executing, bad
//! input, I/O failures. A flaky primitive registered through egglog's public
//! primitive API fails at chosen invocation numbers *inside* a rule run.

use crate::rng::Rng;
use crate::sexp::Sexp;
use crate::wgen::{FuncOut, Gen, Merge, Ty};
use egglog::{EGraph, add_primitive};
use std::sync::Arc;
use std::sync::atomic::{AtomicU64, Ordering};

/// Shared state of the flaky primitives of one engine.
#[derive(Debug)]
pub struct Flaky {
    pub calls: AtomicU64,
    pub fired: AtomicU64,
    pub fail_at: Vec<u64>,
}

impl Flaky {
    pub fn new(fail_at: Vec<u64>) -> Arc<Flaky> {
        Arc::new(Flaky {
            calls: AtomicU64::new(0),
            fired: AtomicU64::new(0),
            fail_at,
        })
    }
    fn call(&self) -> bool {
        let n = self.calls.fetch_add(1, Ordering::SeqCst);
        if self.fail_at.contains(&n) {
            self.fired.fetch_add(1, Ordering::SeqCst);
            false
        } else {
            true
        }
    }
}

/// Register `(flaky x)` (identity on i64, fails at the planned invocations) and
/// `(flaky-min a b)` (min, same failure plan; usable as a merge function).
pub fn install_flaky(eg: &mut EGraph, st: Arc<Flaky>) {
    add_primitive!(eg, "flaky" = {st.clone(): Arc<Flaky>} |a: i64| -?> i64 {
        if self.ctx.call() { Some(a) } else { None }
    });
    add_primitive!(eg, "flaky-min" = {st.clone(): Arc<Flaky>} |a: i64, b: i64| -?> i64 {
        if self.ctx.call() { Some(a.min(b)) } else { None }
    });
}

fn a(s: &str) -> Sexp {
    Sexp::atom(s)
}

/// F4: a command that fails (or may fail) while executing. Returns op text.
pub fn gen_f4(g: &mut Gen) -> Vec<String> {
    let kind = g.rng.weighted(&[5, 4, 2, 2, 2, 2, 2, 1, 1]);
    match kind {
        0 => {
            // rule that panics after staging other actions
            let n = 1 + g.rng.below(2);
            let (facts, vars, atoms) = g.body(n);
            let mut acts = g.actions(&vars, &atoms);
            let pos = g.rng.below(acts.len() + 1);
            acts.insert(pos, Sexp::call("panic", vec![Sexp::Str("injected".into())]));
            let rs = g.pick_ruleset();
            if !g.live_rulesets.contains(&rs) {
                g.live_rulesets.push(rs.clone());
            }
            g.last_body = Some((facts.clone(), vars.clone()));
            let rule = Sexp::List(vec![
                a("rule"),
                Sexp::list(facts),
                Sexp::list(acts),
                a(":ruleset"),
                a(&rs),
            ]);
            let mut out = vec![rule.to_string()];
            out.extend(g.seed_facts().iter().map(|s| s.to_string()));
            out
        }
        1 => {
            // flaky primitive on the action side
            let n = 1 + g.rng.below(2);
            let (facts, vars, atoms) = g.body(n);
            let mut acts = g.actions(&vars, &atoms);
            let ints: Vec<String> = vars
                .iter()
                .filter(|(_, t)| *t == Ty::I64)
                .map(|(n, _)| n.clone())
                .collect();
            let arg = if !ints.is_empty() && g.rng.chance(1, 2) {
                a(&ints[0])
            } else {
                Sexp::int(g.small_int())
            };
            let pos = g.rng.below(acts.len() + 1);
            acts.insert(
                pos,
                Sexp::call("let", vec![a("fl__"), Sexp::call("flaky", vec![arg])]),
            );
            let rs = g.pick_ruleset();
            if !g.live_rulesets.contains(&rs) {
                g.live_rulesets.push(rs.clone());
            }
            g.last_body = Some((facts.clone(), vars.clone()));
            let rule = Sexp::List(vec![
                a("rule"),
                Sexp::list(facts),
                Sexp::list(acts),
                a(":ruleset"),
                a(&rs),
            ]);
            let mut out = vec![rule.to_string()];
            out.extend(g.seed_facts().iter().map(|s| s.to_string()));
            out
        }
        2 => {
            // :no-merge conflict at top level (declares its own function)
            let name = format!("nm{}", g.rng.below(1000));
            let k = g.small_int();
            vec![
                format!("(function {name} (i64) i64 :no-merge)"),
                format!("(set ({name} {k}) 1)"),
                format!("(set ({name} {k}) 2)"),
            ]
        }
        3 => {
            // failed lookup in a global action
            match g.sig.funcs.iter().find(|f| f.out == FuncOut::I64).cloned() {
                Some(f) => {
                    let args: Vec<Sexp> = f.args.iter().map(|t| g.ground(t, 2)).collect();
                    vec![format!("(let $lk{} ({} {}))", g.rng.below(1000), f.name, args.iter().map(|x| x.to_string()).collect::<Vec<_>>().join(" "))]
                }
                None => vec!["(let $ov (+ 9223372036854775807 1))".to_string()],
            }
        }
        4 => {
            // arithmetic failure
            match g.rng.below(3) {
                0 => vec![format!("(let $dz{} (/ 1 0))", g.rng.below(1000))],
                1 => vec![format!("(let $ov{} (+ 9223372036854775807 1))", g.rng.below(1000))],
                _ => vec![format!("(let $ng{} (* -9223372036854775808 -1))", g.rng.below(1000))],
            }
        }
        5 => {
            // merge function that fails: declared here, exercised by two sets
            let name = format!("fm{}", g.rng.below(1000));
            let k = g.small_int();
            vec![
                format!("(function {name} (i64) i64 :merge (flaky-min old new))"),
                format!("(set ({name} {k}) 5)"),
                format!("(set ({name} {k}) 3)"),
                format!("(set ({name} {k}) 4)"),
            ]
        }
        7 => {
            // combined ruleset with a member that does not exist
            let n = g.rng.below(1000);
            vec![
                format!("(unstable-combined-ruleset cdang{n} nosuchmember{n})"),
                format!("(run cdang{n} 1)"),
            ]
        }
        8 => {
            // combined ruleset that contains itself
            let n = g.rng.below(1000);
            vec![
                format!("(unstable-combined-ruleset cself{n} cself{n})"),
                format!("(run-schedule (run cself{n}))"),
            ]
        }
        _ => {
            // rule whose action violates :no-merge
            if let Some(f) = g.sig.funcs.iter().find(|f| f.merge == Merge::NoMerge && f.out == FuncOut::I64).cloned() {
                let args: Vec<Sexp> = f.args.iter().map(|t| g.ground(t, 1)).collect();
                let call = Sexp::call(&f.name, args);
                vec![
                    format!("(set {call} 1)"),
                    format!("(set {call} 2)"),
                ]
            } else {
                vec!["(let $dz (/ 1 0))".to_string()]
            }
        }
    }
}

/// F6: I/O failures.
pub fn gen_f6(g: &mut Gen) -> Vec<String> {
    let rel = g.sig.rels.first().map(|r| r.name.clone());
    match g.rng.below(5) {
        0 => match rel {
            Some(r) => vec![format!("(input {r} \"/nonexistent/dir/facts.csv\")")],
            None => vec!["(include \"/nonexistent/file.egg\")".into()],
        },
        1 => match rel {
            Some(r) => vec![format!("(input {r} \"/tmp\")")],
            None => vec!["(include \"/tmp\")".into()],
        },
        2 => vec!["(include \"/nonexistent/file.egg\")".into()],
        3 => {
            let s = g.rng.below(g.sig.sorts.len());
            let t = g.ground_term(s, 1);
            vec![format!("(output \"/dev/full\" {t})")]
        }
        _ => {
            let s = g.rng.below(g.sig.sorts.len());
            let t = g.ground_term(s, 1);
            vec![format!("(output \"/nonexistent/dir/out.txt\" {t})")]
        }
    }
}

/// F5: a command that must be rejected before executing. `valid` is a valid
/// command of the session to mutate (when the kind needs one), `decls` the
/// declarations seen so far.
pub fn gen_f5(g: &mut Gen, valid: &[String]) -> String {
    let rng: &mut Rng = &mut g.rng;
    let pick_valid = |rng: &mut Rng| -> Option<Sexp> {
        if valid.is_empty() {
            return None;
        }
        crate::sexp::parse(&valid[rng.below(valid.len())]).ok()
    };
    match rng.below(22) {
        // ---- byte-level damage
        0 => {
            let v = &valid[rng.below(valid.len().max(1)).min(valid.len().saturating_sub(1))];
            let cut = rng.below(v.len().max(1));
            let mut end = cut;
            while !v.is_char_boundary(end) {
                end -= 1;
            }
            v[..end].to_string()
        }
        1 => "(run 1))".to_string(),
        2 => {
            let n = *rng.pick(&[10usize, 200, 3000, 10_000]);
            format!("{}check (= 1 1){}", "(".repeat(n), ")".repeat(n))
        }
        3 => {
            let bytes: Vec<u8> = (0..1 + rng.below(24)).map(|_| (rng.next() & 0x7f) as u8).collect();
            String::from_utf8_lossy(&bytes).to_string()
        }
        4 => "(check (= \"unterminated 1))".to_string(),
        // ---- ill-typed mutations
        5 => {
            // wrong arity: drop the last argument of a nested call
            match pick_valid(rng) {
                Some(Sexp::List(mut v)) if v.len() >= 2 => {
                    if let Some(Sexp::List(inner)) = v.iter_mut().rev().find(|x| matches!(x, Sexp::List(l) if l.len() >= 2)) {
                        inner.pop();
                    } else {
                        v.pop();
                    }
                    Sexp::List(v).to_string()
                }
                _ => "(union 1)".into(),
            }
        }
        6 => "(union 1 2)".to_string(),
        7 => {
            // set on a constructor
            match g.sig.ctors.iter().find(|c| c.args.is_empty()) {
                Some(c) => format!("(set ({}) 1)", c.name),
                None => "(set (nosuch) 1)".into(),
            }
        }
        8 => {
            // unbound variable in an action
            let s = &g.sig.sorts[0];
            let c = g.sig.ctors.iter().find(|c| c.args.is_empty()).map(|c| c.name.clone()).unwrap_or("K0".into());
            format!("(rule (({c})) ((union unbound__ ({c}))) :ruleset {}) ; {s}", g.sig.rulesets[0])
        }
        9 => {
            // ungrounded variable in a query
            format!("(rule ((= x__ y__)) () :ruleset {})", g.sig.rulesets[0])
        }
        10 => {
            // duplicate declaration
            let decls: Vec<&String> = valid.iter().filter(|v| v.starts_with("(constructor") || v.starts_with("(sort") || v.starts_with("(relation") || v.starts_with("(function") || v.starts_with("(ruleset") || v.starts_with("(rule ") || v.starts_with("(rewrite ")).collect();
            if decls.is_empty() { "(sort S0)".into() } else { decls[rng.below(decls.len())].clone() }
        }
        11 => format!("(function bad{} (i64) i64 :merge (nosuch old new))", rng.below(1000)),
        12 => format!("(function bad{} (i64) NoSuchSort :no-merge)", rng.below(1000)),
        13 => format!("(sort Bad{} (NoSuchPresort i64))", rng.below(1000)),
        14 => "(run nosuchruleset 1)".to_string(),
        15 => format!("(rule () () :ruleset nosuchruleset{})", rng.below(10)),
        16 => {
            // wrong sort: an integer where an e-class is expected
            match g.sig.ctors.iter().find(|c| c.args.iter().any(|t| matches!(t, Ty::Eq(_)))) {
                Some(c) => {
                    let args: Vec<String> = c.args.iter().map(|t| match t { Ty::Eq(_) => "7".to_string(), _ => "0".to_string() }).collect();
                    format!("({} {})", c.name, args.join(" "))
                }
                None => "(check (= 1 \"a\"))".into(),
            }
        }
        17 => {
            // lookup of a function in a rule action (not allowed under semi-naive)
            match g.sig.funcs.iter().find(|f| f.out == FuncOut::I64).cloned() {
                Some(f) => {
                    let pats: Vec<String> = f.args.iter().enumerate().map(|(i, _)| format!("a{i}__")).collect();
                    let rel_like = format!("(= v__ ({} {}))", f.name, pats.join(" "));
                    format!("(rule ({rel_like}) ((set ({} {}) (+ 1 ({} {})))) :ruleset {})", f.name, pats.join(" "), f.name, pats.join(" "), g.sig.rulesets[0])
                }
                None => "(rule ((= x__ 1)) ((extract nosuch__)))".into(),
            }
        }
        18 => "(pop)".to_string(),
        19 | 20 => {
            // a second rule under an existing name, with another head: it is refused
            // (RuleAlreadyExists) and the rule first declared must stay in force
            let named: Vec<Sexp> = valid
                .iter()
                .filter(|v| v.starts_with("(rule ") && v.contains(":name"))
                .filter_map(|v| crate::sexp::parse(v).ok())
                .collect();
            match named.get(rng.below(named.len().max(1))) {
                Some(Sexp::List(v)) if v.len() >= 3 => {
                    let mut v = v.clone();
                    v[2] = if rng.chance(1, 2) {
                        Sexp::List(vec![Sexp::call("panic", vec![Sexp::atom("\"duplicate rule ran\"")])])
                    } else {
                        Sexp::List(vec![])
                    };
                    Sexp::List(v).to_string()
                }
                _ => format!("(rule () () :ruleset nosuchruleset{})", rng.below(10)),
            }
        }
        _ => {
            // shadowing: a rule variable named like a global
            let c = g.sig.ctors.iter().find(|c| c.args.is_empty()).map(|c| c.name.clone()).unwrap_or("K0".into());
            let n = rng.below(1000);
            // two commands in one op would be split; use the documented
            // single-command form: declare the global inside the bad op's prefix
            format!("(rule ((= $shadow{n} ({c}))) () :ruleset {})", g.sig.rulesets[0])
        }
    }
}
