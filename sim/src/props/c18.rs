//! C18 — custom schedulers are offered every match, lose none, and keep the
//! DB sound. The `Scheduler` trait is the seam: the harness' scheduler records
//! everything it is offered and chooses by a seeded (adversarial) policy, while
//! the history changes the e-graph between the step that offers a match and
//! the step that applies it.

use super::c04::check_invariant;
use super::common::*;
use super::modelcheck::surface_names;
use super::{Budget, Property, Tier};
use crate::case::{Case, CaseResult};
use crate::dump;
use crate::exec::{Engine, Mode, guarded};
use crate::model::{MErr, Model, Rule, Subst, V};
use crate::rng::Rng;
use crate::sexp::{self, Sexp};
use crate::wgen::{Features, Gen, to_text};
use egglog::Value;
use egglog::scheduler::{Matches, Scheduler, SchedulerId};
use egglog_numeric_id::NumericId;
use serde_json::json;
use std::collections::{BTreeMap, BTreeSet, HashMap};
use std::sync::{Arc, Mutex};

pub struct C18;

#[derive(Clone, Debug)]
struct Call {
    /// false: the tuples could not be read (placeholders), only counts are meaningful
    readable: bool,
    rule: String,
    presented: Vec<Vec<Value>>,
    chosen: Vec<usize>,
    all: bool,
    ret: bool,
}

#[derive(Clone)]
struct SimSched {
    log: Arc<Mutex<Vec<Call>>>,
    /// rule name -> head variables (in a fixed order)
    vars: Arc<HashMap<String, Vec<String>>>,
    policy: String,
    rng: Arc<Mutex<Rng>>,
    calls: Arc<Mutex<HashMap<String, u64>>>,
    k: u64,
}

impl Scheduler for SimSched {
    fn filter_matches(&mut self, rule: &str, _ruleset: &str, matches: &mut Matches) -> bool {
        let n = matches.match_size();
        let vars = self.vars.get(rule).cloned().unwrap_or_default();
        let mut presented = Vec::with_capacity(n);
        // `Match::get_value` unwraps: a head variable that the compiler renamed
        // (e.g. `v` in `(= v (f x))`) cannot be read. Such rules are handled by
        // count only.
        let readable = n == 0
            || std::panic::catch_unwind(std::panic::AssertUnwindSafe(|| {
                let m = matches.get_match(0);
                vars.iter().map(|v| m.get_value(v)).count()
            }))
            .is_ok();
        crate::exec::take_panic();
        for i in 0..n {
            if readable {
                let m = matches.get_match(i);
                presented.push(vars.iter().map(|v| m.get_value(v)).collect::<Vec<Value>>());
            } else {
                presented.push(vec![Value::new_const(u32::MAX - 7), Value::new_const(i as u32)]);
            }
        }
        let call_no = {
            let mut c = self.calls.lock().unwrap();
            let e = c.entry(rule.to_string()).or_insert(0);
            *e += 1;
            *e - 1
        };
        let mut rng = self.rng.lock().unwrap();
        let mut chosen = Vec::new();
        let mut all = false;
        let mut ret = true;
        match self.policy.as_str() {
            "all" => all = true,
            "none-then-all" => {
                if call_no >= self.k {
                    all = true;
                }
            }
            "subset" => {
                for i in 0..n {
                    if rng.chance(1, 2) {
                        chosen.push(i);
                    }
                }
            }
            "one" => {
                if n > 0 {
                    chosen.push(rng.below(n));
                }
            }
            "adversarial" => {
                // last first, duplicates, then a few others in descending order
                if n > 0 {
                    chosen.push(n - 1);
                    chosen.push(n - 1);
                    chosen.push(0);
                    for i in (0..n).rev() {
                        if rng.chance(1, 3) {
                            chosen.push(i);
                        }
                    }
                }
            }
            "backoff" => {
                if rng.chance(1, 2) {
                    all = true;
                } else {
                    for i in 0..n {
                        if rng.chance(1, 2) {
                            chosen.push(i);
                        }
                    }
                }
                ret = call_no % 2 == 1;
            }
            _ => all = true,
        }
        if all {
            matches.choose_all();
        } else {
            for c in &chosen {
                matches.choose(*c);
            }
        }
        self.log.lock().unwrap().push(Call {
            readable,
            rule: rule.to_string(),
            presented,
            chosen,
            all,
            ret,
        });
        ret
    }
}

/// Variables bound in the body that the head mentions, in order of appearance.
fn head_vars(rule: &Rule, body_vars: &BTreeSet<String>) -> Vec<String> {
    let mut out = Vec::new();
    fn walk(s: &Sexp, bv: &BTreeSet<String>, out: &mut Vec<String>) {
        match s {
            Sexp::Atom(a) => {
                if bv.contains(a) && !out.contains(a) {
                    out.push(a.clone());
                }
            }
            Sexp::List(v) => v.iter().for_each(|x| walk(x, bv, out)),
            _ => {}
        }
    }
    for a in &rule.head {
        walk(a, body_vars, &mut out);
    }
    out
}

/// Sort of each body variable, from the positions it occupies.
fn var_sorts(m: &Model, rule: &Rule) -> HashMap<String, String> {
    let mut out = HashMap::new();
    fn is_var(m: &Model, a: &str) -> bool {
        a.parse::<i64>().is_err() && a != "true" && a != "false" && m.table(a).is_none() && !a.starts_with('$')
    }
    fn walk(m: &Model, e: &Sexp, expect: Option<&str>, out: &mut HashMap<String, String>) {
        match e {
            Sexp::Atom(a) => {
                if is_var(m, a) {
                    if let Some(s) = expect {
                        out.entry(a.clone()).or_insert(s.to_string());
                    }
                }
            }
            Sexp::List(v) => {
                let Some(h) = v.first().and_then(|x| x.as_atom()) else { return };
                if h == "=" && v.len() == 3 {
                    // sort of one side from the other
                    let so = |x: &Sexp| -> Option<String> {
                        let h = x.head()?;
                        let t = m.table(h)?;
                        Some(m.tables[t].out.clone())
                    };
                    let (a, b) = (&v[1], &v[2]);
                    let sa = so(a).or_else(|| a.as_atom().and_then(|x| out.get(x).cloned()));
                    let sb = so(b).or_else(|| b.as_atom().and_then(|x| out.get(x).cloned()));
                    let prim_int = |x: &Sexp| matches!(x.head(), Some("+" | "-" | "*" | "min" | "max"));
                    let s = sa.or(sb).or_else(|| if prim_int(a) || prim_int(b) || a.as_int().is_some() || b.as_int().is_some() { Some("i64".into()) } else { None });
                    walk(m, a, s.as_deref(), out);
                    walk(m, b, s.as_deref(), out);
                } else if let Some(t) = m.table(h) {
                    let sorts = m.tables[t].args.clone();
                    for (x, s) in v[1..].iter().zip(sorts.iter()) {
                        walk(m, x, Some(s), out);
                    }
                } else if matches!(h, "<" | "<=" | ">" | ">=" | "+" | "-" | "*" | "min" | "max") {
                    for x in &v[1..] {
                        walk(m, x, Some("i64"), out);
                    }
                } else {
                    for x in &v[1..] {
                        walk(m, x, None, out);
                    }
                }
            }
            _ => {}
        }
    }
    for _ in 0..2 {
        for f in &rule.body {
            walk(m, f, None, &mut out);
        }
    }
    out
}

fn render_value(e: &Engine, names: &HashMap<(String, u64), String>, sort: &str, v: Value) -> Option<String> {
    match sort {
        "i64" => Some(e.eg.value_to_base::<i64>(v).to_string()),
        "bool" => Some(e.eg.value_to_base::<bool>(v).to_string()),
        _ => {
            let arc = e.eg.get_sort_by_name(sort)?.clone();
            if !arc.is_eq_sort() {
                return None;
            }
            let cid = e.eg.value_to_class_id(&arc, v).to_string();
            let n: u64 = cid.rsplit_once('-')?.1.parse().ok()?;
            names.get(&(sort.to_string(), n)).cloned()
        }
    }
}

fn render_model(m: &Model, names: &HashMap<(String, u64), String>, sort: &str, v: &V) -> Option<String> {
    match m.canon(v) {
        V::I(i) => Some(i.to_string()),
        V::B(b) => Some(b.to_string()),
        V::C(c) => names.get(&(sort.to_string(), c as u64)).cloned(),
        _ => None,
    }
}

impl Property for C18 {
    fn id(&self) -> &'static str {
        "C18"
    }
    fn level(&self) -> &'static str {
        "exploration"
    }
    fn technique(&self) -> &'static str {
        "deterministic simulation through the Scheduler trait seam: a recording scheduler with seeded adversarial policies (all, none-then-all, random subsets, one at a time, duplicates and descending indices, back-off) while the history unions, inserts, subsumes, snapshots and fails between the offering and the applying step; oracles against the reference model and a step_rules twin"
    }
    fn rule(&self) -> &'static str {
        "case = declarations and named rules, a registered scheduler with a seeded policy, and a history mixing (@step ruleset) with writes (unions merging ids held in residual matches, inserts, subsume of rows under offered matches), push/pop, clone, and failing rules. At every step: every match of a rule body in the reference model (projected to the head's variables, modulo the current equalities) has been offered at this or an earlier seeking step; what is presented contains the previous residual (nothing dropped); newly offered matches are real, non-subsumed matches; the database after the step equals the model applying exactly the chosen matches canonicalised at apply time; with the choose-all policy an engine driven by step_rules stays equal step by step; I(E) holds after every step; after a failing step the engine still has its rulesets and schedulers. Non-trivial = >= 2 steps offered matches and one left a residual; distinct = distinct operation lists and policies."
    }
    fn assumptions(&self) -> Vec<String> {
        vec![
            "matches are compared after projection to the variables the rule head mentions (that is what the scheduler is given)".into(),
            "fair-policy confluence is not checked (it needs a confluence proof of the generated program)".into(),
        ]
    }
    fn budget(&self, tier: Tier) -> Budget {
        match tier {
            Tier::Quick => Budget { cases: 6000, wall_s: 120 },
            Tier::Thorough => Budget { cases: 150_000, wall_s: 1800 },
        }
    }
    fn generate(&self, seed: u64, _index: u64, _tier: Tier) -> Case {
        let mut case = Case::new("C18", seed);
        let root = Rng::new(seed);
        let mut cfg_rng = root.fork("cfg");
        let mut f = Features::draw(&mut cfg_rng);
        f.containers = false;
        f.set_funcs = false;
        f.bool_funcs = false;
        f.rewrites = false; // only named rules
        f.subsume = cfg_rng.chance(1, 3);
        f.prints = false;
        f.extract = false;
        f.lets = false;
        f.multi_rulesets = cfg_rng.chance(1, 2);
        let mut g = Gen::new(root.fork("workload"), f);
        let mut ops = to_text(&g.gen_decls());
        let mut rng = root.fork("steps");
        // named rules, each with facts that make it fire
        let nrules = 1 + rng.below(3);
        for i in 0..nrules {
            let r = g.gen_rule();
            if let Sexp::List(mut v) = r {
                v.push(Sexp::atom(":name"));
                v.push(Sexp::Str(format!("rule{i}")));
                ops.push(Sexp::List(v).to_string());
            }
            for _ in 0..1 + rng.below(2) {
                ops.extend(to_text(&g.seed_facts()));
            }
        }
        if rng.chance(1, 8) {
            // a rule whose head uses no variables
            let s = g.rng.below(g.sig.sorts.len());
            let mut vars = Vec::new();
            let p = g.ctor_pattern(s, 1, &mut vars);
            let t = g.force_app(s);
            let rs = g.pick_ruleset();
            ops.push(format!("(rule ({p}) ({t}) :ruleset {rs} :name \"novars\")"));
        }
        if rng.chance(1, 6) {
            // a rule that fails when it is applied
            let s = g.rng.below(g.sig.sorts.len());
            let mut vars = Vec::new();
            let p = g.ctor_pattern(s, 1, &mut vars);
            let rs = g.pick_ruleset();
            ops.push(format!("(rule ({p}) ((panic \"injected\")) :ruleset {rs} :name \"boom\")"));
        }
        let rulesets = g.live_rulesets.clone();
        let nsteps = 3 + rng.below(6);
        for _ in 0..nsteps {
            let rs = if rulesets.is_empty() { g.pick_ruleset() } else { rulesets[rng.below(rulesets.len())].clone() };
            ops.push(format!("(@step {rs})"));
            // between the step that offers and the step that applies
            for _ in 0..rng.weighted(&[2, 3, 2, 1]) {
                match rng.weighted(&[4, 4, 2, 1, 1]) {
                    0 => {
                        let s = g.rng.below(g.sig.sorts.len());
                        let a = g.ground_term(s, 2);
                        let b = g.ground_term(s, 2);
                        ops.push(Sexp::call("union", vec![a, b]).to_string());
                    }
                    1 => ops.extend(to_text(&g.seed_facts())),
                    2 => ops.push(g.gen_fact().to_string()),
                    3 => {
                        ops.push("(push)".into());
                        ops.push(g.gen_fact().to_string());
                        ops.push("(pop)".into());
                    }
                    _ => ops.push("(@clone)".into()),
                }
            }
        }
        case.ops = ops;
        let policy = *cfg_rng.pick(&["all", "all", "none-then-all", "subset", "one", "adversarial", "backoff"]);
        case.cfg.insert("policy_sched".into(), json!(policy));
        case.cfg.insert("k".into(), json!(1 + cfg_rng.below(3)));
        case.cfg.insert("sched_rng".into(), json!(cfg_rng.next() >> 1));
        if cfg_rng.chance(1, 2) {
            // size-dependent engine paths forced or forbidden on small databases
            draw_knobs(&mut case, &mut cfg_rng);
        }
        case
    }
    fn check(&self, case: &Case) -> CaseResult {
        let mut res = CaseResult::new();
        apply_knobs(case);
        let policy = case.cfg_str("policy_sched").unwrap_or("all").to_string();
        let mut e = Engine::new(Mode::Plain, 1);
        let mut twin = if policy == "all" { Some(Engine::new(Mode::Plain, 1)) } else { None };
        let mut m = Model::new();
        let mut in_sync = true;
        let mut qrng = Rng::new(case.seed).fork("inv");
        let log: Arc<Mutex<Vec<Call>>> = Arc::new(Mutex::new(Vec::new()));
        let mut sched_id: Option<SchedulerId> = None;
        // per rule: everything offered so far (raw), and the residual after the last call
        let mut offered: HashMap<String, Vec<Vec<Value>>> = HashMap::new();
        let mut residual: HashMap<String, Vec<Vec<Value>>> = HashMap::new();
        let mut seeking: HashMap<String, bool> = HashMap::new();
        let mut steps_with_matches = 0u64;
        let mut snapshot_restored = false;
        let mut left_residual = false;
        for op in &case.ops {
            let parsed = sexp::parse(op).ok();
            let head = parsed.as_ref().and_then(|p| p.head().map(|s| s.to_string()));
            if head.as_deref() == Some("@clone") {
                if sched_id.is_some() {
                    snapshot_restored = true;
                }
                e = e.clone();
                res.count("fault:clone", 1);
                continue;
            }
            if head.as_deref() != Some("@step") {
                let o = e.run(op);
                if let Some(t) = twin.as_mut() {
                    t.run(op);
                }
                res.log(&format!("{op} => {}", normalized(&o)));
                if o.is_panic() {
                    res.inconclusive("panic outside a scheduler step (C09 territory)");
                    return res;
                }
                if op == "(push)" || op == "(pop)" {
                    res.count("fault:push_pop", 1);
                    if op == "(pop)" && sched_id.is_some() {
                        snapshot_restored = true;
                    }
                }
                if in_sync {
                    let snap = m.clone();
                    match (m.run(op), o.is_ok()) {
                        (Ok(_), true) => {}
                        (Err(MErr::Fail(k)), false) if k == o.kind() && (crate::exec::is_rejection(&k) || k == "Check") => m = snap,
                        (Err(MErr::Unsupported(_)), _) => in_sync = false,
                        _ => in_sync = false,
                    }
                }
                continue;
            }
            // ---------------- one scheduler step
            let rs = parsed.unwrap().args().first().and_then(|x| x.as_atom()).unwrap_or("").to_string();
            let rules: Vec<Rule> = match m.rules_of(&rs) {
                Ok(r) => r.into_iter().filter(|r| r.name.is_some()).collect(),
                Err(_) => continue,
            };
            if sched_id.is_none() {
                let mut vars = HashMap::new();
                for rsname in m.rulesets.keys() {
                    for r in m.rules_of(rsname).unwrap_or_default() {
                        if let Some(n) = &r.name {
                            let bv: BTreeSet<String> = var_sorts(&m, &r).keys().cloned().collect();
                            vars.insert(n.clone(), head_vars(&r, &bv));
                        }
                    }
                }
                let s = SimSched {
                    log: log.clone(),
                    vars: Arc::new(vars),
                    policy: policy.clone(),
                    rng: Arc::new(Mutex::new(Rng::new(case.cfg_u64("sched_rng", 1)))),
                    calls: Arc::new(Mutex::new(HashMap::new())),
                    k: case.cfg_u64("k", 1),
                };
                sched_id = Some(e.eg.add_scheduler(Box::new(s)));
            }
            // model-side matches against the pre-step database
            let pre = e.clone();
            let (pre_raw, pre_dump) = match pre.dump() {
                Ok(x) => x,
                Err(p) => {
                    res.violation("read-api-panic", p);
                    return res;
                }
            };
            if in_sync {
                let md = dump::canonical(&m.raw());
                if md.orphans > 0 || pre_dump.orphans > 0 {
                    in_sync = false;
                } else if md.lines != pre_dump.lines {
                    res.inconclusive("engine and model differ before the step (C01 territory)");
                    return res;
                }
            }
            let enames = surface_names(&pre_raw);
            let mnames = surface_names(&m.raw());
            let mut model_matches: HashMap<String, (Vec<String>, Vec<Vec<V>>, BTreeSet<Vec<String>>)> = HashMap::new();
            if in_sync {
                for r in &rules {
                    let name = r.name.clone().unwrap();
                    let sorts = var_sorts(&m, r);
                    let bv: BTreeSet<String> = sorts.keys().cloned().collect();
                    let hv = head_vars(r, &bv);
                    let q = match m.query(&r.body, false) {
                        Ok(q) => q,
                        Err(_) => {
                            in_sync = false;
                            break;
                        }
                    };
                    let mut tuples: Vec<Vec<V>> = Vec::new();
                    let mut rendered: BTreeSet<Vec<String>> = BTreeSet::new();
                    for s in q {
                        let t: Vec<V> = hv.iter().map(|v| s.get(v).map(|x| m.canon(x)).unwrap_or(V::Unit)).collect();
                        let rn: Option<Vec<String>> = hv
                            .iter()
                            .zip(t.iter())
                            .map(|(v, x)| render_model(&m, &mnames, sorts.get(v).map(|s| s.as_str()).unwrap_or("?"), x))
                            .collect();
                        if let Some(rn) = rn {
                            rendered.insert(rn);
                        }
                        if !tuples.contains(&t) {
                            tuples.push(t);
                        }
                    }
                    let sortv: Vec<String> = hv.iter().map(|v| sorts.get(v).cloned().unwrap_or("?".into())).collect();
                    model_matches.insert(name, (sortv, tuples, rendered));
                }
            }
            let before = log.lock().unwrap().len();
            let id = sched_id.unwrap();
            let eg = &mut e.eg;
            let rs_c = rs.clone();
            let r = guarded(move || eg.step_rules_with_scheduler(id, &rs_c));
            let calls: Vec<Call> = log.lock().unwrap()[before..].to_vec();
            res.count("scheduler_steps", 1);
            let step_failed = match &r {
                Err(p) => {
                    res.violation("step-panic", format!("{op}: {p}"));
                    return res;
                }
                Ok(Err(err)) => {
                    res.count("fault:step_error", 1);
                    res.log(&format!("{op} => err {}", crate::exec::error_kind(err)));
                    true
                }
                Ok(Ok(rep)) => {
                    res.log(&format!("{op} => updated={} offered={:?}", rep.updated, calls.iter().map(|c| c.presented.len()).collect::<Vec<_>>()));
                    false
                }
            };
            if calls.iter().any(|c| !c.presented.is_empty()) {
                steps_with_matches += 1;
            }
            // conservation: the previous residual is presented again (modulo the
            // equalities that hold now: held-back matches may be canonicalised)
            let canon_tuple = |rule: &str, t: &Vec<Value>| -> Vec<u64> {
                let sorts: Vec<String> = model_matches.get(rule).map(|x| x.0.clone()).unwrap_or_default();
                t.iter()
                    .enumerate()
                    .map(|(i, v)| {
                        let sort = sorts.get(i).map(|s| s.as_str()).unwrap_or("?");
                        match pre.eg.get_sort_by_name(sort) {
                            Some(arc) if arc.is_eq_sort() => {
                                let cid = pre.eg.value_to_class_id(arc, *v).to_string();
                                cid.rsplit_once('-').and_then(|x| x.1.parse().ok()).unwrap_or(u64::MAX)
                            }
                            _ => v.rep() as u64,
                        }
                    })
                    .collect()
            };
            for c in &calls {
                let prev = residual.get(&c.rule).cloned().unwrap_or_default();
                let mut pool: Vec<Vec<Value>> = c.presented.clone();
                if !c.readable || !in_sync {
                    if c.presented.len() < prev.len() {
                        res.violation(
                            "residual-match-dropped",
                            format!("{op}: rule {} held back {} matches but is now presented only {}", c.rule, prev.len(), c.presented.len()),
                        );
                        return res;
                    }
                    pool = pool.split_off(prev.len().min(pool.len()));
                } else {
                    for t in &prev {
                        let ct = canon_tuple(&c.rule, t);
                        match pool.iter().position(|x| canon_tuple(&c.rule, x) == ct) {
                            Some(i) => {
                                pool.remove(i);
                            }
                            None => {
                                res.violation(
                                    "residual-match-dropped",
                                    format!("{op}: rule {} was presented {} matches; a match held back at the previous step is missing", c.rule, c.presented.len()),
                                );
                                return res;
                            }
                        }
                    }
                }
                // `pool` now holds the newly offered matches
                let was_seeking = seeking.get(&c.rule).copied().unwrap_or(true);
                if !was_seeking && !pool.is_empty() {
                    res.count("offered_while_backing_off", pool.len() as u64);
                }
                if in_sync && c.readable {
                    if let Some((sorts, _, rendered)) = model_matches.get(&c.rule) {
                        // every new match is a real, non-subsumed match
                        for t in &pool {
                            let rn: Option<Vec<String>> = t.iter().zip(sorts.iter()).map(|(v, s)| render_value(&pre, &enames, s, *v)).collect();
                            if let Some(rn) = rn {
                                if !rendered.contains(&rn) && !sorts.is_empty() {
                                    res.violation(
                                        "offered-match-is-not-a-match",
                                        format!("{op}: rule {} was offered {rn:?}, which is not a (non-subsumed) match of its body", c.rule),
                                    );
                                    return res;
                                }
                            }
                        }
                    }
                }
                offered.entry(c.rule.clone()).or_default().extend(pool.iter().cloned());
                // new residual
                let mut keep: Vec<Vec<Value>> = Vec::new();
                if !c.all {
                    let chosen: BTreeSet<usize> = c.chosen.iter().copied().collect();
                    for (i, t) in c.presented.iter().enumerate() {
                        if !chosen.contains(&i) {
                            keep.push(t.clone());
                        }
                    }
                }
                if !keep.is_empty() {
                    left_residual = true;
                }
                residual.insert(c.rule.clone(), keep);
                seeking.insert(c.rule.clone(), c.ret);
            }
            // every model match has been offered by now (at seeking steps)
            if in_sync && !step_failed {
                for (rule, (sorts, _, rendered)) in &model_matches {
                    let Some(c) = calls.iter().find(|c| &c.rule == rule) else { continue };
                    let was_seeking = {
                        // the flag that governed *this* step is the one returned by the previous call
                        let n = log.lock().unwrap()[..before].iter().rev().find(|x| &x.rule == rule).map(|x| x.ret);
                        n.unwrap_or(true)
                    };
                    if !c.readable {
                        // count-only: as many matches offered as the model has (projections may coincide)
                        continue;
                    }
                    if !was_seeking || sorts.is_empty() {
                        continue;
                    }
                    let have: BTreeSet<Vec<String>> = offered
                        .get(rule)
                        .map(|v| {
                            v.iter()
                                .filter_map(|t| t.iter().zip(sorts.iter()).map(|(v, s)| render_value(&pre, &enames, s, *v)).collect::<Option<Vec<String>>>())
                                .collect()
                        })
                        .unwrap_or_default();
                    if let Some(missing) = rendered.iter().find(|t| !have.contains(*t)) {
                        res.violation(
                            "match-never-offered",
                            format!(
                                "{op}: rule {rule} matches {missing:?} in the database but the scheduler was never offered it (offered so far: {}){}",
                                have.len(),
                                if snapshot_restored { " [after the e-graph was cloned or popped with the scheduler registered]" } else { "" }
                            ),
                        );
                        return res;
                    }
                    res.count("offer_completeness_checks", 1);
                }
            }
            // apply exactly the chosen matches in the model
            if in_sync && !step_failed {
                m.changed = false;
                'apply: for c in &calls {
                    if !c.readable && (c.all || !c.chosen.is_empty()) {
                        in_sync = false;
                        break 'apply;
                    }
                    let Some(r) = rules.iter().find(|r| r.name.as_deref() == Some(&c.rule)) else { continue };
                    let sorts = var_sorts(&m, r);
                    let bv: BTreeSet<String> = sorts.keys().cloned().collect();
                    let hv = head_vars(r, &bv);
                    let idx: Vec<usize> = if c.all { (0..c.presented.len()).collect() } else { c.chosen.iter().copied().collect::<BTreeSet<_>>().into_iter().collect() };
                    for i in idx {
                        let Some(t) = c.presented.get(i) else { continue };
                        let mut s = Subst::new();
                        for (v, raw) in hv.iter().zip(t.iter()) {
                            let sort = sorts.get(v).cloned().unwrap_or("?".into());
                            let Some(txt) = render_value(&pre, &enames, &sort, *raw) else {
                                in_sync = false;
                                break 'apply;
                            };
                            let Ok(term) = sexp::parse(&txt) else {
                                in_sync = false;
                                break 'apply;
                            };
                            match m.eval(&term, &Subst::new(), false) {
                                Ok(val) => {
                                    s.insert(v.clone(), val);
                                }
                                Err(_) => {
                                    in_sync = false;
                                    break 'apply;
                                }
                            }
                        }
                        for a in &r.head {
                            if m.run_action(a, &mut s).is_err() {
                                in_sync = false;
                                break 'apply;
                            }
                        }
                    }
                }
                if in_sync && m.rebuild().is_err() {
                    in_sync = false;
                }
            } else if step_failed {
                in_sync = false;
            }
            // database after the step
            if !check_invariant(&mut e, &mut res, op, &mut qrng, 2) {
                return res;
            }
            if in_sync {
                if let Ok((_, ed)) = e.dump() {
                    let md = dump::canonical(&m.raw());
                    if ed.rows > 400 {
                        res.inconclusive("size bound");
                        return res;
                    }
                    if ed.orphans == 0 && md.orphans == 0 {
                        res.state(ed.hash());
                        if ed.lines != md.lines {
                            res.violation(
                                "applied-differs-from-chosen",
                                format!("after {op} (policy {policy}): (left=engine right=model applying exactly the chosen matches) {}", ed.first_diff(&md)),
                            );
                            return res;
                        }
                        res.count("apply_checks", 1);
                    } else {
                        in_sync = false;
                    }
                }
            }
            // choose-all is indistinguishable from the built-in stepping
            if let Some(t) = twin.as_mut() {
                let teg = &mut t.eg;
                let rs2 = rs.clone();
                let tr = guarded(move || teg.step_rules(&rs2));
                let same_outcome = matches!((&tr, &r), (Ok(Ok(_)), Ok(Ok(_))) | (Ok(Err(_)), Ok(Err(_))));
                if !same_outcome {
                    res.violation(
                        "choose-all-differs-from-step-rules",
                        format!(
                            "{op}: scheduler step ok={} step_rules ok={}{}",
                            matches!(r, Ok(Ok(_))),
                            matches!(tr, Ok(Ok(_))),
                            if snapshot_restored { " [after the e-graph was cloned or popped with the scheduler registered]" } else { "" }
                        ),
                    );
                    return res;
                }
                if !step_failed {
                    if let (Ok((_, a)), Ok((_, b))) = (e.dump(), t.dump()) {
                        if a.orphans == 0 && b.orphans == 0 && a.lines != b.lines {
                            res.violation(
                                "choose-all-differs-from-step-rules",
                                format!(
                                    "after {op}: (left=scheduler right=step_rules) {}{}",
                                    a.first_diff(&b),
                                    if snapshot_restored { " [after the e-graph was cloned or popped with the scheduler registered]" } else { "" }
                                ),
                            );
                            return res;
                        }
                        res.count("twin_checks", 1);
                    }
                } else {
                    twin = None;
                }
            }
            if step_failed {
                // the engine must still have its rulesets and schedulers
                let eg = &mut e.eg;
                let rs3 = rs.clone();
                match guarded(move || eg.step_rules_with_scheduler(id, &rs3)) {
                    Err(p) => {
                        res.violation("step-panic-after-error", format!("{op}: {p}"));
                        return res;
                    }
                    Ok(Err(err)) => {
                        let msg = err.to_string();
                        if msg.contains("no such ruleset") || msg.contains("No such ruleset") {
                            res.violation("rulesets-lost-after-error", format!("{op}: {msg}"));
                            return res;
                        }
                    }
                    Ok(Ok(_)) => {}
                }
                // residual bookkeeping is void after a failed step
                residual.clear();
                offered.clear();
                let _ = BTreeMap::<u8, u8>::new();
            }
        }
        res.nontrivial = steps_with_matches >= 2 && (left_residual || policy == "all");
        res
    }
}
