//! C10 — schedules mean what they say: run, repeat, saturate, seq, until,
//! combined rulesets. Metamorphic oracle (law-related schedules on clones of
//! the same engine) plus the reference model running the same schedule.

use super::common::*;
use super::{Budget, Property, Tier};
use crate::case::{Case, CaseResult};
use crate::dump::{self, Dump};
use crate::exec::{Engine, Mode, Outcome};
use crate::model::Model;
use crate::rng::Rng;
use crate::sexp::Sexp;
use crate::wgen::{Features, Gen, to_text};
use serde_json::json;

pub struct C10;

fn updated(o: &Outcome) -> Option<bool> {
    match o {
        Outcome::Ok(outs) => outs.iter().find_map(|x| x.strip_prefix("run updated=").map(|b| b == "true")),
        _ => None,
    }
}

fn dump_of(e: &Engine) -> Option<Dump> {
    e.dump().ok().map(|x| x.1)
}

/// Run `cmds` on a clone of `base`; returns (dump, OR of updated flags, last updated flag) or None on error.
fn run_on_clone(base: &Engine, cmds: &[String]) -> Result<(Dump, bool, Option<bool>, Engine), String> {
    let mut e = base.clone();
    let mut any = false;
    let mut last = None;
    for c in cmds {
        let o = e.run(c);
        match &o {
            Outcome::Ok(_) => {
                if let Some(u) = updated(&o) {
                    any |= u;
                    last = Some(u);
                }
            }
            other => return Err(format!("{c}: {}", other.brief())),
        }
    }
    let d = dump_of(&e).ok_or("dump failed")?;
    Ok((d, any, last, e))
}

impl Property for C10 {
    fn id(&self) -> &'static str {
        "C10"
    }
    fn level(&self) -> &'static str {
        "exploration"
    }
    fn technique(&self) -> &'static str {
        "deterministic simulation of seeded prefix histories (with snapshots and thresholds drawn per run, threaded sub-batch under the token scheduler) followed by a metamorphic oracle: schedule expressions related by an algebraic law run on clones of the same engine, and the same schedule on the reference model"
    }
    fn rule(&self) -> &'static str {
        "case = seeded prefix history, then one law instance drawn by the seed: (run R n) vs n separate (run R 1) commands; (repeat a (repeat b s)) vs (repeat a*b s); (saturate s) vs six repetitions when those reach a fixpoint, then s again must report updated=false with an unchanged database; seq associativity and unit; a combined ruleset vs one ruleset holding the same rules, also after a rule is added to a sub-ruleset, and (every other case) through a nested combination that has already been run before the rule is added; (run R n :until f) vs the manual check-then-run loop. Both sides must give equal id-free dumps and equal updated flags, and the dump must equal the reference model's result for the same schedule. Non-trivial = the schedule updated the database on the left side; distinct = distinct (prefix, law instance)."
    }
    fn assumptions(&self) -> Vec<String> {
        vec![
            "the laws are a metamorphic oracle over a deterministic function; the simulated dimension is the prefix history, the thresholds and the thread schedule (DESIGN §5 C10)".into(),
            "the in-schedule form (repeat n (run R)) is what the parser produces for (run R n), so that pair is not counted".into(),
        ]
    }
    fn budget(&self, tier: Tier) -> Budget {
        match tier {
            Tier::Quick => Budget { cases: 6000, wall_s: 120 },
            Tier::Thorough => Budget { cases: 150_000, wall_s: 1800 },
        }
    }
    fn timeout_s(&self) -> u64 {
        20
    }
    fn generate(&self, seed: u64, index: u64, _tier: Tier) -> Case {
        let mut case = Case::new("C10", seed);
        let root = Rng::new(seed);
        let mut cfg_rng = root.fork("cfg");
        let mut f = Features::draw(&mut cfg_rng);
        f.multi_rulesets = true;
        f.max_rules = 2 + cfg_rng.below(3);
        f.prints = false;
        f.extract = false;
        f.pushpop = cfg_rng.chance(1, 8);
        f.subsume = cfg_rng.chance(1, 5);
        let mut g = Gen::new(root.fork("workload"), f);
        let mut ops = to_text(&g.gen_decls());
        ops.push("(ruleset rall__)".into());
        let session = g.gen_session();
        // every rule also goes into rall__ (the union of all rulesets)
        let mut extra_rule: Option<(String, String)> = None;
        for s in &session {
            ops.push(s.to_string());
            if matches!(s.head(), Some("rule" | "rewrite" | "birewrite")) {
                if let Sexp::List(v) = s {
                    let mut w = v.clone();
                    if let Some(i) = w.iter().position(|x| x.as_atom() == Some(":ruleset")) {
                        w[i + 1] = Sexp::atom("rall__");
                    }
                    ops.push(Sexp::List(w).to_string());
                }
            }
        }
        // a rule that is added after the combined ruleset exists
        {
            let r = g.gen_rule();
            if let Sexp::List(v) = &r {
                let mut w = v.clone();
                if let Some(i) = w.iter().position(|x| x.as_atom() == Some(":ruleset")) {
                    w[i + 1] = Sexp::atom("rall__");
                }
                extra_rule = Some((r.to_string(), Sexp::List(w).to_string()));
            }
            // facts that let it fire, and fresh work for the other rules
            ops.extend(to_text(&g.seed_facts()));
            for _ in 0..3 {
                ops.push(g.gen_fact().to_string());
            }
        }
        case.ops = ops;
        let rs: Vec<String> = g.sig.rulesets.clone();
        let r1 = rs[cfg_rng.below(rs.len())].clone();
        let r2 = rs[cfg_rng.below(rs.len())].clone();
        let law = *cfg_rng.pick(&["run-n", "repeat-nest", "saturate", "seq", "combined", "until"]);
        case.cfg.insert("law".into(), json!(law));
        case.cfg.insert("r1".into(), json!(r1));
        case.cfg.insert("r2".into(), json!(r2));
        case.cfg.insert("rulesets".into(), json!(rs));
        case.cfg.insert("a".into(), json!(1 + cfg_rng.below(3)));
        case.cfg.insert("b".into(), json!(1 + cfg_rng.below(3)));
        if let Some((own, all)) = extra_rule {
            case.cfg.insert("extra_own".into(), json!(own));
            case.cfg.insert("extra_all".into(), json!(all));
        }
        case.cfg.insert("until".into(), json!(g.gen_check().args()[0].to_string()));
        if index % 10 == 9 {
            draw_threaded(&mut case, &mut cfg_rng);
        }
        if cfg_rng.chance(1, 2) {
            draw_knobs(&mut case, &mut cfg_rng);
        }
        case
    }
    fn check(&self, case: &Case) -> CaseResult {
        let mut res = CaseResult::new();
        let threads = case.threads() as usize;
        let law = case.cfg_str("law").unwrap_or("run-n").to_string();
        let r1 = case.cfg_str("r1").unwrap_or("r0").to_string();
        let r2 = case.cfg_str("r2").unwrap_or("r0").to_string();
        let a = case.cfg_u64("a", 2) as i64;
        let b = case.cfg_u64("b", 2) as i64;
        let rulesets: Vec<String> = case
            .cfg
            .get("rulesets")
            .and_then(|v| v.as_array())
            .map(|v| v.iter().filter_map(|x| x.as_str().map(|s| s.to_string())).collect())
            .unwrap_or_default();
        maybe_sim(case, &mut res, |res| {
            let mut base = Engine::new(Mode::Plain, threads);
            let mut m = Model::new();
            let mut model_ok = true;
            for op in &case.ops {
                let o = base.run(op);
                res.log(&format!("{op} => {}", normalized(&o)));
                if o.is_panic() {
                    res.inconclusive("panic in prefix (C09 territory)");
                    return;
                }
                if model_ok {
                    let snap = m.clone();
                    match (m.run(op), &o) {
                        (Ok(_), Outcome::Ok(_)) => {}
                        (Err(crate::model::MErr::Fail(k)), Outcome::Err { kind, .. }) if &k == kind && (k == "Check" || crate::exec::is_rejection(&k)) => m = snap,
                        _ => model_ok = false,
                    }
                }
            }
            let Some(d0) = dump_of(&base) else { return };
            if d0.rows > 300 {
                res.inconclusive("size bound");
                return;
            }
            // the two sides of the law
            let (left, right, model_sched): (Vec<String>, Vec<String>, Option<String>) = match law.as_str() {
                "run-n" => {
                    let n = a + b;
                    (
                        vec![format!("(run {r1} {n})")],
                        (0..n).map(|_| format!("(run {r1} 1)")).collect(),
                        Some(format!("(run {r1} {n})")),
                    )
                }
                "repeat-nest" => {
                    let s = format!("(seq (run {r1}) (run {r2}))");
                    (
                        vec![format!("(run-schedule (repeat {a} (repeat {b} {s})))")],
                        vec![format!("(run-schedule (repeat {} {s}))", a * b)],
                        Some(format!("(run-schedule (repeat {} {s}))", a * b)),
                    )
                }
                "seq" => {
                    let (s1, s2, s3) = (format!("(run {r1})"), format!("(repeat {a} (run {r2}))"), format!("(run {r1})"));
                    match b % 3 {
                        0 => (
                            vec![format!("(run-schedule (seq {s1} (seq {s2} {s3})))")],
                            vec![format!("(run-schedule (seq (seq {s1} {s2}) {s3}))")],
                            Some(format!("(run-schedule (seq {s1} {s2} {s3}))")),
                        ),
                        1 => (
                            vec![format!("(run-schedule (seq {s1} {s2} {s3}))")],
                            vec![format!("(run-schedule {s1} {s2} {s3})")],
                            Some(format!("(run-schedule (seq {s1} {s2} {s3}))")),
                        ),
                        _ => (
                            vec![format!("(run-schedule (seq {s2}))")],
                            vec![format!("(run-schedule {s2})")],
                            Some(format!("(run-schedule {s2})")),
                        ),
                    }
                }
                "combined" => {
                    // one level, or nested: outer = combined(inner = combined(first members), rest)
                    let nested = b % 2 == 0 && rulesets.len() >= 2;
                    let mut l = if nested {
                        let k = 1 + (a as usize) % (rulesets.len() - 1);
                        vec![
                            format!("(unstable-combined-ruleset cin__ {})", rulesets[..k].join(" ")),
                            format!("(unstable-combined-ruleset call__ cin__ {})", rulesets[k..].join(" ")),
                            format!("(run call__ {a})"),
                        ]
                    } else {
                        let members = rulesets.join(" ");
                        vec![format!("(unstable-combined-ruleset call__ {members})"), format!("(run call__ {a})")]
                    };
                    let mut r = vec![format!("(run rall__ {a})")];
                    if let (Some(own), Some(all)) = (case.cfg_str("extra_own"), case.cfg_str("extra_all")) {
                        // a rule added to a sub-ruleset after the combination
                        l.push(own.to_string());
                        l.push(format!("(run call__ {b})"));
                        r.push(all.to_string());
                        r.push(format!("(run rall__ {b})"));
                    }
                    (l, r, None)
                }
                "until" => {
                    let f = case.cfg_str("until").unwrap_or("(= 1 1)").to_string();
                    let n = a + b;
                    (vec![format!("(run {r1} {n} :until {f})")], vec![], Some(format!("(run {r1} {n} :until {f})")))
                }
                _ => {
                    // saturate: decided below
                    (vec![], vec![], None)
                }
            };
            if law == "saturate" {
                let s = format!("(seq (run {r1}) (run {r2}))");
                // six repetitions, then once more: a fixpoint?
                let six = match run_on_clone(&base, &[format!("(run-schedule (repeat 6 {s}))"), format!("(run-schedule {s})")]) {
                    Ok(x) => x,
                    Err(e) => {
                        res.inconclusive(&format!("schedule failed: {}", e.chars().take(60).collect::<String>()));
                        return;
                    }
                };
                if six.2 != Some(false) || six.0.rows > 300 {
                    res.inconclusive("not saturated within six repetitions");
                    return;
                }
                let sat = match run_on_clone(&base, &[format!("(run-schedule (saturate {s}))")]) {
                    Ok(x) => x,
                    Err(e) => {
                        res.violation("saturate-failed", e);
                        return;
                    }
                };
                res.nontrivial = sat.1;
                if sat.0.lines != six.0.lines {
                    res.violation("saturate-not-the-fixpoint", format!("(saturate {s}) differs from seven repetitions: {}", sat.0.first_diff(&six.0)));
                    return;
                }
                // s again: nothing changes, and it says so
                let mut e = sat.3;
                let o = e.run(&format!("(run-schedule {s})"));
                if updated(&o) != Some(false) {
                    res.violation("saturated-but-updated", format!("after (saturate {s}), running {s} again reports {}", o.brief()));
                    return;
                }
                if dump_of(&e).map(|d| d.lines) != Some(sat.0.lines.clone()) {
                    res.violation("saturated-but-changed", format!("after (saturate {s}), running {s} again changed the database"));
                    return;
                }
                // idempotence
                let o = e.run(&format!("(run-schedule (saturate {s}))"));
                if updated(&o) != Some(false) {
                    res.violation("saturate-not-idempotent", format!("second (saturate {s}) reports {}", o.brief()));
                }
                return;
            }
            let l = match run_on_clone(&base, &left) {
                Ok(x) => x,
                Err(e) => {
                    res.inconclusive(&format!("schedule failed: {}", e.chars().take(60).collect::<String>()));
                    return;
                }
            };
            res.nontrivial = l.1;
            res.state(l.0.hash());
            if l.0.rows > 400 {
                res.inconclusive("size bound");
                return;
            }
            if law == "until" {
                // manual loop: check, then run one iteration, stop when nothing changed
                let f = case.cfg_str("until").unwrap_or("(= 1 1)").to_string();
                let n = a + b;
                let mut e = base.clone();
                let mut any = false;
                for _ in 0..n {
                    if e.run(&format!("(check {f})")).is_ok() {
                        break;
                    }
                    let o = e.run(&format!("(run {r1} 1)"));
                    match updated(&o) {
                        Some(true) => any = true,
                        Some(false) => break,
                        None => {
                            res.inconclusive("manual loop failed");
                            return;
                        }
                    }
                }
                let d = dump_of(&e).unwrap_or_default();
                if d.lines != l.0.lines {
                    res.violation("until-differs-from-manual-loop", format!("(run {r1} {n} :until {f}): {}", l.0.first_diff(&d)));
                    return;
                }
                if any != l.1 {
                    res.violation("until-updated-flag", format!("(run {r1} {n} :until {f}) reports updated={} but the manual loop {}", l.1, any));
                    return;
                }
            } else {
                let r = match run_on_clone(&base, &right) {
                    Ok(x) => x,
                    Err(e) => {
                        if e.contains("RuleAlreadyExists") || e.contains("NoSuchRuleset") {
                            // the same rule text already lives in the all-rules ruleset
                            res.inconclusive("law instance not well-formed (duplicate rule)");
                            return;
                        }
                        res.violation("law-side-failed", format!("{left:?} succeeded but {e}"));
                        return;
                    }
                };
                if l.0.lines != r.0.lines {
                    res.violation(&format!("law-{law}-dump"), format!("{left:?} vs {right:?}: {}", l.0.first_diff(&r.0)));
                    return;
                }
                if l.1 != r.1 {
                    res.violation(&format!("law-{law}-updated"), format!("{left:?} reports updated={} but {right:?} {}", l.1, r.1));
                    return;
                }
            }
            // the reference model on the same schedule
            if let (true, Some(ms)) = (model_ok, model_sched) {
                let md0 = dump::canonical(&m.raw());
                if md0.orphans == 0 && d0.orphans == 0 && md0.lines == d0.lines {
                    match m.run(&ms) {
                        Ok(outs) => {
                            let md = dump::canonical(&m.raw());
                            res.count("model_schedules_compared", 1);
                            if md.orphans == 0 && l.0.orphans == 0 && md.lines != l.0.lines {
                                res.violation("schedule-differs-from-model", format!("{ms}: (left=engine right=model) {}", l.0.first_diff(&md)));
                                return;
                            }
                            let mu = outs.iter().any(|o| o == "run updated=true");
                            let has_subsume = case.ops.iter().any(|o| o.contains("subsume"));
                            if !has_subsume && mu != l.1 {
                                res.violation("schedule-updated-differs-from-model", format!("{ms}: engine updated={} model updated={mu}", l.1));
                            }
                        }
                        Err(crate::model::MErr::Unsupported(_)) => res.count("model_unsupported", 1),
                        Err(_) => {}
                    }
                }
            }
        });
        res
    }
}
