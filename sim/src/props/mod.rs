//! Property registry. Every property is a generator of cases plus an oracle
//! that executes a case against the real code.

use crate::case::{Case, CaseResult};

pub mod common;
pub mod modelcheck;
pub mod c01;
pub mod c02;
pub mod c03;
pub mod c04;
pub mod c05;
pub mod c06;
pub mod c07;
pub mod c08;
pub mod c09;
pub mod c10;
pub mod c11;
pub mod c12;
pub mod c13;
pub mod c14;
pub mod c16;
pub mod c17;
pub mod c18;
pub mod c19;
pub mod c20;

#[derive(Clone, Copy, PartialEq, Eq, Debug)]
pub enum Tier {
    Quick,
    Thorough,
}

#[derive(Clone, Copy, PartialEq, Eq, Debug)]
pub enum Isolation {
    /// many cases per worker process
    Shared,
    /// one case per (pinned) process: threaded engine simulations
    Fresh,
}

pub struct Budget {
    pub cases: u64,
    pub wall_s: u64,
}

pub trait Property: Sync + Send {
    fn id(&self) -> &'static str;
    fn level(&self) -> &'static str;
    fn technique(&self) -> &'static str;
    fn rule(&self) -> &'static str;
    fn assumptions(&self) -> Vec<String>;
    fn real_vs_stub(&self) -> &'static str {
        "real: every crate of the egglog workspace as compiled from /repo plus its dependencies; stub: none (the reference model is an oracle, not a stub)"
    }
    fn budget(&self, tier: Tier) -> Budget;
    /// Cases are generated in groups of this size sharing one seed (e.g. one
    /// program under several schedules); `index` distinguishes the members.
    fn group(&self) -> u64 {
        1
    }
    /// Generate the i-th case of a batch.
    fn generate(&self, seed: u64, index: u64, tier: Tier) -> Case;
    fn isolation(&self, case: &Case) -> Isolation {
        if case.threads() > 1 { Isolation::Fresh } else { Isolation::Shared }
    }
    /// Execute a case. Runs inside a worker process.
    fn check(&self, case: &Case) -> CaseResult;
    /// Whether a case that exceeds its wall clock limit is a violation (tiny,
    /// always-terminating scenarios) rather than inconclusive.
    fn timeout_is_violation(&self) -> bool {
        false
    }
    /// Per-case wall clock limit in seconds.
    fn timeout_s(&self) -> u64 {
        40
    }
    /// The property is itself about run-to-run reproducibility of the code under
    /// test: a violation is an observed difference between two executions, so its
    /// replay reproduces the violation class, not necessarily the same detail.
    fn violation_is_nondeterminism(&self) -> bool {
        false
    }
}

pub fn all() -> Vec<Box<dyn Property>> {
    vec![Box::new(c01::C01), Box::new(c02::C02), Box::new(c03::C03), Box::new(c04::C04), Box::new(c05::C05), Box::new(c06::C06), Box::new(c07::C07), Box::new(c08::C08), Box::new(c09::C09), Box::new(c10::C10), Box::new(c11::C11), Box::new(c12::C12), Box::new(c13::C13), Box::new(c14::C14), Box::new(c16::C16), Box::new(c17::C17), Box::new(c18::C18), Box::new(c19::C19), Box::new(c20::C20)]
}

pub fn get(id: &str) -> Option<Box<dyn Property>> {
    all().into_iter().find(|p| p.id() == id)
}
