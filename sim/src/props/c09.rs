//! C09 — bad input is rejected cleanly: no panic, no partial effect.
//! Sessions `S1; bad; S2` are compared against `S1; S2` on one EGraph each.

use super::c04::{check_invariant, count_outcome};
use super::common::*;
use super::{Budget, Property, Tier};
use crate::case::{Case, CaseResult};
use crate::exec::{Engine, Mode, Outcome, is_rejection};
use crate::faults;
use crate::rng::Rng;
use crate::wgen::{Features, Gen, to_text};
use serde_json::json;

pub struct C09;

fn mode_of(case: &Case) -> Mode {
    match case.cfg_str("mode") {
        Some("term") => Mode::TermEncoding,
        Some("proofs") => Mode::Proofs,
        _ => Mode::Plain,
    }
}

/// Stable class for a panic: its source location.
fn panic_class(p: &str) -> String {
    let loc = p.split(' ').next().unwrap_or("");
    format!("panic:{loc}")
}

impl Property for C09 {
    fn id(&self) -> &'static str {
        "C09"
    }
    fn level(&self) -> &'static str {
        "fault_enumeration"
    }
    fn technique(&self) -> &'static str {
        "deterministic simulation with fault injection: bad commands (byte-level damage, catalogue of ill-typed mutations, run-time failures, I/O failures) inserted at arbitrary positions of seeded sessions, differential oracle against the session without the bad command, process death observed by the driver"
    }
    fn rule(&self) -> &'static str {
        "case = seeded session S1 ++ [bad] ++ S2 (half of S1's rules carry :name; the bad commands include re-declaring an existing rule name with another head; S2 re-declares and re-uses names the bad command touched) in plain / term-encoding / proof mode, executed in a worker process so that an abort or stack overflow is an observation. Oracles: no command ever panics or kills the process; if the bad command was rejected before execution (parse, desugar, type, shadowing, unknown ruleset/name, pop on empty stack ...) then every outcome and dump of S2 equals the run without it; after an execution failure I(E) holds and S2 runs without panic. Non-trivial = the bad command was really refused; distinct = distinct operation lists."
    }
    fn assumptions(&self) -> Vec<String> {
        vec![
            "which error kinds count as pre-execution rejections is fixed in exec::is_rejection".into(),
            "known findings are keyed by violation class plus the failing shape, so that a different violation of C09 is still reported".into(),
        ]
    }
    fn budget(&self, tier: Tier) -> Budget {
        match tier {
            Tier::Quick => Budget { cases: 12_000, wall_s: 120 },
            Tier::Thorough => Budget { cases: 400_000, wall_s: 1800 },
        }
    }
    fn generate(&self, seed: u64, _index: u64, _tier: Tier) -> Case {
        let mut case = Case::new("C09", seed);
        let root = Rng::new(seed);
        let mut cfg_rng = root.fork("cfg");
        let mode = *cfg_rng.pick(&["plain", "plain", "plain", "plain", "term", "proofs"]);
        case.cfg.insert("mode".into(), json!(mode));
        let mut f = Features::draw(&mut cfg_rng);
        f.functions = true;
        f.nomerge = mode == "plain" && cfg_rng.chance(1, 3);
        f.pushpop = cfg_rng.chance(1, 3);
        f.subsume = cfg_rng.chance(1, 4);
        if mode != "plain" {
            // stay inside what the encoder supports
            f.containers = false;
            f.set_funcs = false;
            f.max_cmds = f.max_cmds.min(8);
        } else {
            f.containers = cfg_rng.chance(1, 5);
        }
        let mut g = Gen::new(root.fork("workload"), f);
        let mut s1 = to_text(&g.gen_decls());
        let session = to_text(&g.gen_session());
        let cut = cfg_rng.below(session.len() + 1);
        s1.extend(session[..cut].iter().cloned());
        // some rules carry an explicit name, so that a later rule can collide with it
        for (k, op) in s1.iter_mut().enumerate() {
            if op.starts_with("(rule ") && !op.contains(":name") && cfg_rng.chance(1, 2) {
                *op = format!("{} :name \"n{k}\")", &op[..op.len() - 1]);
            }
        }
        let mut frng = root.fork("faults");
        let bad: Vec<String> = match frng.weighted(&[8, 3, 1]) {
            0 => vec![faults::gen_f5(&mut g, &s1)],
            1 => faults::gen_f4(&mut g),
            _ => faults::gen_f6(&mut g),
        };
        let mut s2: Vec<String> = session[cut..].to_vec();
        // S2 deliberately re-uses what the bad command touched: a run, a check
        // over existing terms, and the declaration the bad command tried to make.
        s2.push(g.gen_run().to_string());
        s2.push(g.gen_check().to_string());
        for b in &bad {
            if let Some(s) = parse_op(b) {
                if matches!(s.head(), Some("function" | "constructor" | "relation" | "sort" | "ruleset")) {
                    if let Some(name) = s.args().first().and_then(|x| x.as_atom()) {
                        // a well-formed declaration of the same name
                        let decl = match s.head() {
                            Some("sort") => format!("(sort {name})"),
                            Some("ruleset") => format!("(ruleset {name})"),
                            _ => format!("(function {name} (i64) i64 :merge (min old new))"),
                        };
                        s2.push(decl.clone());
                        if decl.starts_with("(function") {
                            s2.push(format!("(set ({name} 1) 2)"));
                            s2.push(format!("(check (= ({name} 1) 2))"));
                        }
                    }
                }
            }
        }
        s2.push(g.gen_extract().to_string());
        let mut ops = s1;
        ops.push("(@bad)".into());
        ops.extend(bad);
        ops.push("(@s2)".into());
        ops.extend(s2);
        case.ops = ops;
        let fails: Vec<u64> = (0..cfg_rng.below(3)).map(|_| cfg_rng.below(6) as u64).collect();
        case.cfg.insert("flaky_fail_at".into(), json!(fails));
        if cfg_rng.chance(1, 2) {
            // size-dependent engine paths forced or forbidden on small databases
            draw_knobs(&mut case, &mut cfg_rng);
        }
        case
    }
    fn timeout_s(&self) -> u64 {
        20
    }
    fn check(&self, case: &Case) -> CaseResult {
        let mut res = CaseResult::new();
        let mode = mode_of(case);
        // sections are delimited by marker operations so that shrinking keeps them meaningful
        let i_bad = case.ops.iter().position(|o| o == "(@bad)");
        let i_s2 = case.ops.iter().position(|o| o == "(@s2)");
        let (Some(i_bad), Some(i_s2)) = (i_bad, i_s2) else {
            res.inconclusive("section markers missing");
            return res;
        };
        if i_s2 < i_bad {
            res.inconclusive("section markers out of order");
            return res;
        }
        let fail_at: Vec<u64> = case
            .cfg
            .get("flaky_fail_at")
            .and_then(|v| v.as_array())
            .map(|a| a.iter().filter_map(|x| x.as_u64()).collect())
            .unwrap_or_default();
        let mut qrng = Rng::new(case.seed).fork("queries");
        apply_knobs(case);
        let mk = |fail_at: &Vec<u64>| {
            let mut e = Engine::new(mode, 1);
            faults::install_flaky(&mut e.eg, faults::Flaky::new(fail_at.clone()));
            e
        };
        // with: S1; bad; S2      without: S1; S2
        let mut with = mk(&fail_at);
        let mut without = mk(&fail_at);
        let s1 = &case.ops[..i_bad];
        let bad = &case.ops[i_bad + 1..i_s2];
        let s2 = &case.ops[i_s2 + 1..];
        let mut refused_in_s1: Vec<String> = Vec::new();
        for op in s1 {
            let a = with.run(op);
            let b = without.run(op);
            res.log(&format!("S1 {op} => {}", normalized(&a)));
            if let Outcome::Panic(p) = &a {
                res.violation(&panic_class(p), format!("mode={mode:?} after commands refused as {refused_in_s1:?}, {op}: {p}"));
                return res;
            }
            if let Outcome::Err { kind, .. } = &a {
                if !refused_in_s1.contains(kind) {
                    refused_in_s1.push(kind.clone());
                }
            }
            if normalized(&a) != normalized(&b) {
                res.verdict = crate::case::Verdict::HarnessError(format!("S1 diverged on {op}"));
                return res;
            }
        }
        let mut all_rejected = true;
        let mut refused = 0;
        let mut kinds: Vec<String> = Vec::new();
        for op in bad {
            let o = with.run(op);
            res.log(&format!("BAD {op} => {}", normalized(&o)));
            count_outcome(&mut res, &o);
            kinds.push(o.kind().to_string());
            match &o {
                Outcome::Panic(p) => {
                    res.violation(
                        &panic_class(p),
                        format!("mode={mode:?} after commands refused as {:?}, {}: {p}", refused_in_s1.iter().chain(kinds.iter()).collect::<Vec<_>>(), op.chars().take(200).collect::<String>()),
                    );
                    return res;
                }
                Outcome::Err { kind, .. } => {
                    refused += 1;
                    if !is_rejection(kind) {
                        all_rejected = false;
                    }
                }
                Outcome::Ok(_) => {
                    // accepted: part of the session, nothing to compare against
                    all_rejected = false;
                }
            }
            if mode == Mode::Plain && !check_invariant(&mut with, &mut res, op, &mut qrng, 0) {
                return res;
            }
        }
        res.nontrivial = refused > 0;
        if all_rejected {
            res.count("rejected_sessions", 1);
        }
        for op in s2 {
            let a = with.run(op);
            res.log(&format!("S2 {op} => {}", normalized(&a)));
            if let Outcome::Panic(p) = &a {
                res.violation(&panic_class(p), format!("after a refused command, {op}: {p}"));
                return res;
            }
            if all_rejected {
                let b = without.run(op);
                if normalized(&a) != normalized(&b) {
                    res.violation(
                        "rejected-command-left-a-trace",
                        format!(
                            "mode={:?} bad={:?} refused-as={kinds:?}; then {op}: with={} without={}",
                            mode,
                            bad.iter().map(|b| b.chars().take(120).collect::<String>()).collect::<Vec<_>>(),
                            normalized(&a),
                            normalized(&b)
                        ),
                    );
                    return res;
                }
                if mode == Mode::Plain {
                    if let (Ok((_, da)), Ok((_, db))) = (with.dump(), without.dump()) {
                        res.count("dumps_compared", 1);
                        if da.orphans == 0 && db.orphans == 0 && da.lines != db.lines {
                            res.violation(
                                "rejected-command-left-a-trace",
                                format!("mode={mode:?} bad={bad:?} refused-as={kinds:?}; after {op}: {}", da.first_diff(&db)),
                            );
                            return res;
                        }
                        res.state(da.hash());
                    }
                }
            } else if mode == Mode::Plain && !check_invariant(&mut with, &mut res, op, &mut qrng, 1) {
                return res;
            }
        }
        res
    }
}
