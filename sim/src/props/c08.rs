//! C08 — push/pop and clone give perfect snapshot isolation.
//! `P; push; Q; pop; R` must behave like `P; R`; a clone and its original,
//! driven by independent sequences, must each behave like a solo run.

use super::common::*;
use super::{Budget, Property, Tier};
use crate::case::{Case, CaseResult};
use crate::exec::{Engine, Mode};
use crate::faults;
use crate::rng::Rng;
use crate::wgen::{Features, Gen, to_text};
use serde_json::json;

pub struct C08;

fn features(cfg_rng: &mut Rng) -> Features {
    let mut f = Features::draw(cfg_rng);
    f.functions = true;
    f.relations = true;
    f.subsume = cfg_rng.chance(1, 3);
    f.delete = cfg_rng.chance(1, 4);
    f.containers = cfg_rng.chance(1, 4);
    f.lets = true;
    f.prints = true;
    f.extract = true;
    f.max_cmds = 4 + cfg_rng.below(6);
    f
}

/// Normalised outcome plus, for errors, the first line of the message.
fn with_msg(o: &crate::exec::Outcome) -> String {
    match o {
        crate::exec::Outcome::Err { msg, .. } => format!("{} :: {}", normalized(o), msg.lines().last().unwrap_or("").chars().take(100).collect::<String>()),
        _ => normalized(o),
    }
}

/// Compare two engines after a step; returns false on violation.
fn same(res: &mut CaseResult, a: &mut Engine, b: &mut Engine, step: &str, oa: &str, ob: &str, what: &str) -> bool {
    if oa != ob {
        res.violation(
            &format!("{what}-outcome"),
            format!("{step}: {oa} vs {ob}"),
        );
        return false;
    }
    match (a.dump(), b.dump()) {
        (Ok((ra, da)), Ok((rb, db))) => {
            res.count("dumps_compared", 1);
            if let Some(p) = ra.problems.iter().chain(rb.problems.iter()).find(|p| p.starts_with("name-indexed read")) {
                res.violation(&format!("{what}-name-indexed-read"), format!("after {step}: {p}"));
                return false;
            }
            if da.orphans == 0 && db.orphans == 0 {
                res.state(da.hash());
                if da.lines != db.lines {
                    res.violation(&format!("{what}-dump"), format!("after {step}: {}", da.first_diff(&db)));
                    return false;
                }
            }
            true
        }
        _ => {
            res.violation("dump-panic", format!("after {step}"));
            false
        }
    }
}

impl C08 {
    /// Original and clone driven by two caller threads under the token
    /// scheduler; each must behave exactly like a solo run of its own sequence.
    fn check_clone_threads(&self, case: &Case) -> CaseResult {
        use egglog_concurrency::verif;
        let mut res = CaseResult::new();
        let threads = case.threads() as usize;
        let Some(ic) = case.ops.iter().position(|o| o == "(@clone)") else {
            res.inconclusive("marker missing");
            return res;
        };
        let Some(io) = case.ops.iter().position(|o| o == "(@other)") else {
            res.inconclusive("marker missing");
            return res;
        };
        if io < ic {
            res.inconclusive("markers out of order");
            return res;
        }
        let p: Vec<String> = case.ops[..ic].to_vec();
        let sa: Vec<String> = case.ops[ic + 1..io].to_vec();
        let sb: Vec<String> = case.ops[io + 1..].to_vec();
        let fail_at: Vec<u64> = vec![];
        // solo references (serial, outside the scheduler)
        let solo = |seq: &Vec<String>| -> (Vec<String>, Option<(crate::dump::RawDb, crate::dump::Dump)>) {
            let mut e = Engine::new(Mode::Plain, 1);
            faults::install_flaky(&mut e.eg, faults::Flaky::new(fail_at.clone()));
            for op in &p {
                e.run(op);
            }
            let outs: Vec<String> = seq.iter().map(|op| with_msg(&e.run(op))).collect();
            (outs, e.dump().ok())
        };
        let (ref_a, dump_a) = solo(&sa);
        let (ref_b, dump_b) = solo(&sb);
        if ref_a.iter().chain(ref_b.iter()).any(|o| o.starts_with("panic")) {
            res.inconclusive("panic in a solo run (C09 territory)");
            return res;
        }
        let mut got_a: Vec<String> = Vec::new();
        let mut got_b: Vec<String> = Vec::new();
        let mut fin_a = None;
        let mut fin_b = None;
        maybe_sim(case, &mut res, |_res| {
            let mut orig = Engine::new(Mode::Plain, threads);
            faults::install_flaky(&mut orig.eg, faults::Flaky::new(fail_at.clone()));
            for op in &p {
                orig.run(op);
            }
            let mut cl = orig.clone();
            let sb2 = sb.clone();
            let h = verif::spawn(move || {
                let mut outs = Vec::new();
                for op in &sb2 {
                    outs.push(with_msg(&cl.run(op)));
                    verif::yield_point(verif::site::USER);
                }
                let d = cl.dump().ok();
                drop(cl);
                (outs, d)
            });
            for op in &sa {
                got_a.push(with_msg(&orig.run(op)));
                verif::yield_point(verif::site::USER2);
            }
            fin_a = orig.dump().ok();
            verif::sim_join(&h);
            if let Ok((o, d)) = h.join() {
                got_b = o;
                fin_b = d;
            }
            drop(orig);
        });
        if matches!(res.verdict, crate::case::Verdict::HarnessError(_)) {
            return res;
        }
        // name-indexed access broken by the other side's declarations (known finding of the serial variant)
        for (what, d) in [("original-sees-clone-name-indexed-read", &fin_a), ("clone-sees-original-name-indexed-read", &fin_b)] {
            if let Some((raw, _)) = d {
                if let Some(p) = raw.problems.iter().find(|p| p.starts_with("name-indexed read")) {
                    res.violation(what, format!("two caller threads: {p}"));
                    return res;
                }
            }
        }
        let strip = |s: &String| s.split(" :: ").next().unwrap_or("").to_string();
        // A command that fails at run time has no promised partial effect, and with
        // several workers the set of actions applied before the failure depends on the
        // schedule: a side is compared up to (and including) its first execution failure,
        // and its final database only if it had none.
        let first_exec_failure = |outs: &Vec<String>| outs.iter().position(|o| o.starts_with("err Backend"));
        let fa = first_exec_failure(&ref_a);
        let fb = first_exec_failure(&ref_b);
        for (i, (w, g)) in ref_a.iter().zip(got_a.iter()).enumerate() {
            if fa.map(|k| i > k).unwrap_or(false) {
                break;
            }
            if strip(w) != strip(g) {
                res.violation("original-sees-clone-outcome-threads", format!("{}: solo {w} concurrent {g}", sa[i]));
                return res;
            }
        }
        for (i, (w, g)) in ref_b.iter().zip(got_b.iter()).enumerate() {
            if fb.map(|k| i > k).unwrap_or(false) {
                break;
            }
            if strip(w) != strip(g) {
                res.violation("clone-sees-original-outcome-threads", format!("{}: solo {w} concurrent {g}", sb[i]));
                return res;
            }
        }
        if got_a.len() != ref_a.len() || got_b.len() != ref_b.len() {
            res.violation("caller-thread-died", format!("{} / {} commands completed", got_a.len(), got_b.len()));
            return res;
        }
        for (what, want, got, failed) in [
            ("original-sees-clone-dump-threads", &dump_a, &fin_a, fa.is_some()),
            ("clone-sees-original-dump-threads", &dump_b, &fin_b, fb.is_some()),
        ] {
            if failed {
                continue;
            }
            if let (Some((_, w)), Some((_, g))) = (want, got) {
                if w.orphans == 0 && g.orphans == 0 && w.lines != g.lines {
                    res.violation(what, format!("final databases differ: {}", w.first_diff(g)));
                    return res;
                }
                res.state(g.hash());
            }
        }
        res.nontrivial = sa.len() >= 3 && sb.len() >= 3 && res.counters.get("sched_decisions").copied().unwrap_or(0) >= 10;
        res
    }
}

impl Property for C08 {
    fn id(&self) -> &'static str {
        "C08"
    }
    fn level(&self) -> &'static str {
        "exploration"
    }
    fn technique(&self) -> &'static str {
        "deterministic simulation: seeded histories with snapshots at arbitrary instants (push/pop brackets around bodies with declarations, runs and injected failures; clone at a seeded point with seeded interleaving of original and clone), differential oracle against the history without the bracket / the solo run"
    }
    fn rule(&self) -> &'static str {
        "case = (P, Q, R): engine A runs P; push; Q; pop; R, engine B runs P; R. Q declares new constructors/relations/functions/rulesets/rules/globals, writes, runs, fails (F4/F5/F6) and nests brackets; R re-declares the names Q introduced (possibly with other signatures), writes, runs, extracts and prints. Every command of R must give the same outcome and the same id-free dump on A and B. Clone cases: after P the engine is cloned; original and clone get independent sequences interleaved by the seed; each must equal a solo engine running P plus its own sequence. Non-trivial = Q changed the database (a dump inside the bracket differs from the one before it) and R has >= 3 commands; distinct = distinct operation lists."
    }
    fn assumptions(&self) -> Vec<String> {
        vec![
            "the symbol generator and the overall run report are documented to survive pop; outputs that embed generated symbol names are not compared textually".into(),
            "registered schedulers across push/pop are exercised by C18".into(),
        ]
    }
    fn isolation(&self, case: &Case) -> super::Isolation {
        if case.threads() > 1 { super::Isolation::Fresh } else { super::Isolation::Shared }
    }
    fn budget(&self, tier: Tier) -> Budget {
        match tier {
            Tier::Quick => Budget { cases: 8000, wall_s: 120 },
            Tier::Thorough => Budget { cases: 200_000, wall_s: 1800 },
        }
    }
    fn timeout_s(&self) -> u64 {
        20
    }
    fn generate(&self, seed: u64, index: u64, _tier: Tier) -> Case {
        let mut case = Case::new("C08", seed);
        let root = Rng::new(seed);
        let mut cfg_rng = root.fork("cfg");
        let f = features(&mut cfg_rng);
        let mut g = Gen::new(root.fork("P"), f);
        let mut ops = to_text(&g.gen_decls());
        ops.extend(to_text(&g.gen_session()));
        if index % 3 == 2 {
            // clone isolation
            case.cfg.insert("kind".into(), json!(if index % 12 == 11 { "clone-threads" } else { "clone" }));
            let mut ga = g.clone();
            ga.rng = root.fork("A");
            let mut gb = g.clone();
            gb.rng = root.fork("B");
            ops.push("(@clone)".into());
            ops.extend(to_text(&ga.gen_extra_decls("A")));
            ops.extend(to_text(&ga.gen_session()));
            ops.push("(@other)".into());
            // same names on the other side (serial variant); the threaded variant uses
            // different names so that the known registry finding does not mask others
            ops.extend(to_text(&gb.gen_extra_decls(if index % 12 == 11 { "B" } else { "A" })));
            ops.extend(to_text(&gb.gen_session()));
            case.cfg.insert("interleave".into(), json!(cfg_rng.next() >> 1));
            if index % 12 == 11 {
                // two caller threads under the token scheduler, sharing the pool,
                // the registry lock and the panic side channel
                draw_threaded(&mut case, &mut cfg_rng);
                // one side also fails now and then
                let mut frng = root.fork("faults-b");
                if frng.chance(1, 2) {
                    let f_ops = faults::gen_f4(&mut gb);
                    ops.extend(f_ops);
                    ops.push(gb.gen_run().to_string());
                }
            }
        } else {
            case.cfg.insert("kind".into(), json!("pushpop"));
            let mut gq = g.clone();
            gq.rng = root.fork("Q");
            let mut frng = root.fork("faults");
            ops.push("(@push)".into());
            let mut q = to_text(&gq.gen_extra_decls("Q"));
            let mut body = to_text(&gq.gen_session());
            // failures and nested brackets inside the body
            let nf = frng.weighted(&[3, 3, 1]);
            for _ in 0..nf {
                let pos = frng.below(body.len() + 1);
                let mut all = ops.clone();
                all.extend(q.clone());
                let f_ops = match frng.weighted(&[4, 3, 1]) {
                    0 => faults::gen_f4(&mut gq),
                    1 => vec![faults::gen_f5(&mut gq, &all)],
                    _ => faults::gen_f6(&mut gq),
                };
                for (k, o) in f_ops.into_iter().enumerate() {
                    body.insert((pos + k).min(body.len()), o);
                }
            }
            if frng.chance(1, 3) {
                let p1 = frng.below(body.len() + 1);
                body.insert(p1, "(push)".into());
                let p2 = p1 + 1 + frng.below(body.len() - p1);
                body.insert(p2, "(pop)".into());
            }
            q.extend(body);
            ops.extend(q);
            ops.push("(@pop)".into());
            // R: re-declare what Q declared (fresh draw => maybe other signatures), then carry on
            let mut gr = g.clone();
            gr.rng = root.fork("R");
            if cfg_rng.chance(3, 4) {
                ops.extend(to_text(&gr.gen_extra_decls("Q")));
            }
            ops.extend(to_text(&gr.gen_session()));
            // names of globals introduced in Q are free again
            ops.push(format!("(let $g{} {})", g.lets.len(), gr.force_app(0)));
            ops.push(gr.gen_print().to_string());
            ops.push("(print-size)".into());
        }
        let fails: Vec<u64> = (0..cfg_rng.below(3)).map(|_| cfg_rng.below(6) as u64).collect();
        case.cfg.insert("flaky_fail_at".into(), json!(fails));
        case.ops = ops;
        if cfg_rng.chance(1, 2) {
            // size-dependent engine paths forced or forbidden on small databases
            draw_knobs(&mut case, &mut cfg_rng);
        }
        case
    }
    fn check(&self, case: &Case) -> CaseResult {
        let mut res = CaseResult::new();
        let fail_at: Vec<u64> = case
            .cfg
            .get("flaky_fail_at")
            .and_then(|v| v.as_array())
            .map(|a| a.iter().filter_map(|x| x.as_u64()).collect())
            .unwrap_or_default();
        apply_knobs(case);
        let mk = || {
            let mut e = Engine::new(Mode::Plain, 1);
            faults::install_flaky(&mut e.eg, faults::Flaky::new(fail_at.clone()));
            e
        };
        if case.cfg_str("kind") == Some("clone-threads") {
            return self.check_clone_threads(case);
        }
        if case.cfg_str("kind") == Some("clone") {
            let Some(ic) = case.ops.iter().position(|o| o == "(@clone)") else {
                res.inconclusive("marker missing");
                return res;
            };
            let Some(io) = case.ops.iter().position(|o| o == "(@other)") else {
                res.inconclusive("marker missing");
                return res;
            };
            if io < ic {
                res.inconclusive("markers out of order");
                return res;
            }
            let p = &case.ops[..ic];
            let sa = &case.ops[ic + 1..io];
            let sb = &case.ops[io + 1..];
            let mut orig = mk();
            let mut solo_a = mk();
            let mut solo_b = mk();
            for op in p {
                let o = orig.run(op);
                solo_a.run(op);
                solo_b.run(op);
                res.log(&format!("P {op} => {}", normalized(&o)));
                if o.is_panic() {
                    res.inconclusive("panic in prefix (C09 territory)");
                    return res;
                }
            }
            // The flaky primitive's counter is shared between a clone and its
            // original by construction (an Arc in a registered primitive): give
            // the comparison a chance by not arming it after the clone point.
            let mut cl = orig.clone();
            let mut rng = Rng::new(case.cfg_u64("interleave", 1));
            let (mut ia, mut ib) = (0, 0);
            let mut moved = false;
            while ia < sa.len() || ib < sb.len() {
                let pick_a = ib >= sb.len() || (ia < sa.len() && rng.chance(1, 2));
                if pick_a {
                    let op = &sa[ia];
                    ia += 1;
                    let o1 = normalized(&orig.run(op));
                    let o2 = normalized(&solo_a.run(op));
                    res.log(&format!("A {op} => {o1}"));
                    if o1.starts_with("panic") {
                        res.inconclusive("panic (C09 territory)");
                        return res;
                    }
                    moved |= o1.contains("updated=true");
                    if !same(&mut res, &mut orig, &mut solo_a, op, &o1, &o2, "original-sees-clone") {
                        return res;
                    }
                } else {
                    let op = &sb[ib];
                    ib += 1;
                    let o1 = normalized(&cl.run(op));
                    let o2 = normalized(&solo_b.run(op));
                    res.log(&format!("B {op} => {o1}"));
                    if o1.starts_with("panic") {
                        res.inconclusive("panic (C09 territory)");
                        return res;
                    }
                    moved |= o1.contains("updated=true");
                    if !same(&mut res, &mut cl, &mut solo_b, op, &o1, &o2, "clone-sees-original") {
                        return res;
                    }
                }
            }
            res.nontrivial = moved && sa.len() >= 3 && sb.len() >= 3;
            return res;
        }
        let Some(ipush) = case.ops.iter().position(|o| o == "(@push)") else {
            res.inconclusive("marker missing");
            return res;
        };
        let Some(ipop) = case.ops.iter().position(|o| o == "(@pop)") else {
            res.inconclusive("marker missing");
            return res;
        };
        if ipop < ipush {
            res.inconclusive("markers out of order");
            return res;
        }
        let p = &case.ops[..ipush];
        let q = &case.ops[ipush + 1..ipop];
        let r = &case.ops[ipop + 1..];
        let mut a = mk();
        let mut b = mk();
        for op in p {
            let o = a.run(op);
            b.run(op);
            res.log(&format!("P {op} => {}", normalized(&o)));
            if o.is_panic() {
                res.inconclusive("panic in prefix (C09 territory)");
                return res;
            }
        }
        let before = a.dump().ok().map(|x| x.1.hash());
        let o = a.run("(push)");
        if !o.is_ok() {
            res.violation("push-failed", o.brief());
            return res;
        }
        let mut q_changed = false;
        let mut depth = 0i32;
        for op in q {
            // keep the body's own brackets balanced even after shrinking
            if op == "(pop)" {
                if depth == 0 {
                    continue;
                }
                depth -= 1;
            } else if op == "(push)" {
                depth += 1;
            }
            let o = a.run(op);
            res.log(&format!("Q {op} => {}", normalized(&o)));
            if o.is_panic() {
                res.inconclusive("panic inside the bracket (C09 territory)");
                return res;
            }
            if !o.is_ok() {
                res.count(&format!("fault:{}", o.kind().to_lowercase()), 1);
            }
            if a.dump().ok().map(|x| x.1.hash()) != before {
                q_changed = true;
            }
        }
        for _ in 0..depth {
            a.run("(pop)");
        }
        let o = a.run("(pop)");
        if !o.is_ok() {
            res.violation("pop-failed", o.brief());
            return res;
        }
        if !same(&mut res, &mut a, &mut b, "(pop)", "ok", "ok", "pop-did-not-restore") {
            return res;
        }
        for op in r {
            let oa = normalized(&a.run(op));
            let ob = normalized(&b.run(op));
            res.log(&format!("R {op} => {oa}"));
            if oa.starts_with("panic") && ob.starts_with("panic") {
                res.inconclusive("panic in both (C09 territory)");
                return res;
            }
            if !same(&mut res, &mut a, &mut b, op, &oa, &ob, "bracket-leaked") {
                return res;
            }
        }
        res.nontrivial = q_changed && r.len() >= 3;
        res
    }
}
