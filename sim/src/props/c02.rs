//! C02 — a rule run fires for exactly the set of matches of its body, whatever
//! the join plan. One generated conjunctive rule over generated relations; the
//! derived relation must equal the model's nested-loop evaluation and be
//! identical across the configuration swarm (tree decomposition on/off,
//! semi-naive on/off, threads, thresholds).

use super::common::*;
use super::{Budget, Property, Tier};
use crate::case::{Case, CaseResult};
use crate::dump;
use crate::exec::{Engine, Mode};
use crate::model::Model;
use crate::rng::Rng;
use serde_json::json;

pub struct C02;

fn gen_body(rng: &mut Rng, rels: &[(String, usize)], nvars: usize) -> (Vec<String>, Vec<String>) {
    let vars: Vec<String> = (0..nvars).map(|i| format!("v{i}")).collect();
    let mut atoms: Vec<String> = Vec::new();
    let shape = rng.below(6);
    let bin: Vec<&(String, usize)> = rels.iter().filter(|r| r.1 == 2).collect();
    let tern: Vec<&(String, usize)> = rels.iter().filter(|r| r.1 == 3).collect();
    let un: Vec<&(String, usize)> = rels.iter().filter(|r| r.1 == 1).collect();
    let pick = |rng: &mut Rng, v: &Vec<&(String, usize)>| v[rng.below(v.len())].0.clone();
    let edge = |rng: &mut Rng, a: &str, b: &str| format!("({} {a} {b})", pick(rng, &bin));
    match shape {
        0 => {
            // chain
            for i in 0..nvars - 1 {
                atoms.push(edge(rng, &vars[i], &vars[i + 1]));
            }
        }
        1 => {
            // star
            for i in 1..nvars {
                atoms.push(edge(rng, &vars[0], &vars[i]));
            }
        }
        2 => {
            // cycle
            for i in 0..nvars {
                atoms.push(edge(rng, &vars[i], &vars[(i + 1) % nvars]));
            }
        }
        3 => {
            // clique (small)
            let n = nvars.min(4);
            for i in 0..n {
                for j in i + 1..n {
                    atoms.push(edge(rng, &vars[i], &vars[j]));
                }
            }
            for i in n..nvars {
                atoms.push(edge(rng, &vars[i - 1], &vars[i]));
            }
        }
        4 => {
            // tree with ternary atoms
            atoms.push(format!("({} {} {} {})", pick(rng, &tern), vars[0], vars[1 % nvars], vars[2 % nvars]));
            for i in 3..nvars {
                let p = rng.below(i);
                atoms.push(edge(rng, &vars[p], &vars[i]));
            }
            if nvars < 3 {
                atoms.push(edge(rng, &vars[0], &vars[nvars - 1]));
            }
        }
        _ => {
            // random connected hypergraph
            for i in 1..nvars {
                let p = rng.below(i);
                if rng.chance(1, 2) {
                    atoms.push(edge(rng, &vars[p], &vars[i]));
                } else {
                    atoms.push(edge(rng, &vars[i], &vars[p]));
                }
            }
            for _ in 0..rng.below(3) {
                let a = rng.below(nvars);
                let b = rng.below(nvars);
                atoms.push(edge(rng, &vars[a], &vars[b]));
            }
        }
    }
    // every variable must be grounded
    for v in &vars {
        if !atoms.iter().any(|a| a.split(|c: char| !c.is_alphanumeric()).any(|w| w == v)) {
            atoms.push(format!("({} {v})", pick(rng, &un)));
        }
    }
    // decorations: unary filters, constants, repeated variables, guards, duplicates
    if rng.chance(1, 3) {
        let v = &vars[rng.below(nvars)];
        atoms.push(format!("({} {v})", pick(rng, &un)));
    }
    if rng.chance(1, 4) {
        let v = &vars[rng.below(nvars)];
        let k = rng.below(4).to_string();
        atoms.push(edge(rng, v, &k));
    }
    if rng.chance(1, 5) {
        let v = &vars[rng.below(nvars)];
        atoms.push(edge(rng, v, v));
    }
    if rng.chance(1, 4) && !tern.is_empty() {
        // wide atom with a repeated variable or a constant: a slow constraint on a trie edge
        let a = &vars[rng.below(nvars)];
        let b = &vars[rng.below(nvars)];
        let k = rng.below(4).to_string();
        let t = pick(rng, &tern);
        atoms.push(match rng.below(4) {
            0 => format!("({t} {a} {b} {b})"),
            1 => format!("({t} {b} {a} {b})"),
            2 => format!("({t} {a} {k} {b})"),
            _ => format!("({t} {a} {b} {k})"),
        });
    }
    if rng.chance(1, 3) {
        let a = &vars[rng.below(nvars)];
        let b = &vars[rng.below(nvars)];
        let op = *rng.pick(&["<", "<=", "!=", ">"]);
        atoms.push(format!("({op} {a} {b})"));
    }
    if rng.chance(1, 4) {
        let a = &vars[rng.below(nvars)];
        atoms.push(format!("(= {} (+ {a} 1))", vars[rng.below(nvars)]));
    }
    if rng.chance(1, 6) {
        let d = atoms[rng.below(atoms.len())].clone();
        atoms.push(d);
    }
    rng.shuffle(&mut atoms);
    (atoms, vars)
}

/// Variables of `atoms` that are grounded by a relation atom, in first-use order.
fn grounded_vars(atoms: &[String]) -> Vec<String> {
    let mut out: Vec<String> = Vec::new();
    for a in atoms {
        let is_rel = a.starts_with("(E") || a.starts_with("(T") || a.starts_with("(U");
        if !is_rel {
            continue;
        }
        for w in a.split(|c: char| !c.is_alphanumeric()) {
            if w.starts_with('v') && w[1..].chars().all(|c| c.is_ascii_digit()) && w.len() > 1 && !out.iter().any(|x| x == w) {
                out.push(w.to_string());
            }
        }
    }
    out
}

/// A sibling body over the same relations: the same atoms with argument
/// positions re-bound (repeated variable, constant, fresh variable), so that
/// two plans of one run reach the same table through different constraints
/// (trie roots and cached children are shared across the plans of a run).
fn variant_body(rng: &mut Rng, atoms: &[String], dom: i64) -> Vec<String> {
    let mut fresh = 100;
    let mut out: Vec<String> = Vec::new();
    for a in atoms {
        let is_rel = a.starts_with("(E") || a.starts_with("(T") || a.starts_with("(U");
        if !is_rel {
            if rng.chance(1, 2) {
                out.push(a.clone());
            }
            continue;
        }
        let inner = &a[1..a.len() - 1];
        let mut toks: Vec<String> = inner.split(' ').map(|x| x.to_string()).collect();
        let n = toks.len() - 1;
        for k in 0..n {
            match rng.weighted(&[6, 2, 1, 2]) {
                0 => {}
                1 if n >= 2 => {
                    // repeat another position of this atom
                    let j = rng.below(n);
                    if j != k {
                        toks[1 + k] = toks[1 + j].clone();
                    }
                }
                2 => toks[1 + k] = rng.range(0, dom - 1).to_string(),
                3 => {
                    fresh += 1;
                    toks[1 + k] = format!("v{fresh}");
                }
                _ => {}
            }
        }
        out.push(format!("({})", toks.join(" ")));
    }
    // drop primitive atoms whose variables lost their grounding
    let g = grounded_vars(&out);
    out.retain(|a| {
        let is_rel = a.starts_with("(E") || a.starts_with("(T") || a.starts_with("(U");
        is_rel
            || a.split(|c: char| !c.is_alphanumeric())
                .filter(|w| w.starts_with('v') && w.len() > 1 && w[1..].chars().all(|c| c.is_ascii_digit()))
                .all(|w| g.iter().any(|x| x == w))
    });
    out
}

impl Property for C02 {
    fn id(&self) -> &'static str {
        "C02"
    }
    fn level(&self) -> &'static str {
        "exploration"
    }
    fn technique(&self) -> &'static str {
        "deterministic simulation over a configuration swarm (tree decomposition on/off, semi-naive on/off, threads under the token scheduler, thresholds) of seeded conjunctive rules over seeded relations; oracle = nested-loop evaluation in the reference model"
    }
    fn rule(&self) -> &'static str {
        "case = relations E*(i64 i64), T*(i64 i64 i64), U*(i64) with 0-60 skewed rows each, a rule (Out v1..vn) :- body and, in half of the cases, one or two sibling rules in the same run (variants of the first body with positions re-bound to repeated variables, constants or fresh variables, or independent bodies; plans of one run share trie roots and cached children); hub data puts 17-40 rows under one value of one column in a third of the relations; body is a chain, star, cycle, clique, ternary tree or random connected hypergraph over 2-5 variables decorated with constants, repeated variables (also inside ternary atoms), unary filters, primitive guards, computed equalities and duplicate atoms; (run 1), more facts, (run 1) again. The derived relation must equal the model's nested-loop result after each run, and be the same on four engines: default, --no-decomp, semi-naive off, and the rule marked :no-decomp (plus a threaded engine in a sub-batch). Plan reach (single vs decomposed, >= 3 bags) is measured by probes. Non-trivial = the rule derived >= 1 row and the body has >= 3 atoms; distinct = distinct (rule, data)."
    }
    fn assumptions(&self) -> Vec<String> {
        vec![
            "the quantifier is mostly over inputs: the simulator contributes the configuration swarm and the controlled parallel join; the rest is seeded generation against a reference evaluator (DESIGN §5 C02)".into(),
        ]
    }
    fn budget(&self, tier: Tier) -> Budget {
        match tier {
            Tier::Quick => Budget { cases: 6000, wall_s: 120 },
            Tier::Thorough => Budget { cases: 150_000, wall_s: 1800 },
        }
    }
    fn generate(&self, seed: u64, index: u64, _tier: Tier) -> Case {
        let mut case = Case::new("C02", seed);
        let root = Rng::new(seed);
        let mut rng = root.fork("workload");
        let mut cfg_rng = root.fork("cfg");
        let mut ops: Vec<String> = Vec::new();
        let mut rels: Vec<(String, usize)> = Vec::new();
        for i in 0..1 + rng.below(3) {
            rels.push((format!("E{i}"), 2));
        }
        rels.push(("T0".into(), 3));
        for i in 0..1 + rng.below(2) {
            rels.push((format!("U{i}"), 1));
        }
        for (n, a) in &rels {
            ops.push(format!("(relation {n} ({}))", vec!["i64"; *a].join(" ")));
        }
        let nvars = 2 + rng.weighted(&[2, 4, 3, 1]);
        let (atoms, vars) = gen_body(&mut rng, &rels, nvars);
        let dom = *rng.pick(&[3i64, 4, 6, 9]);
        ops.push(format!("(relation Out ({}))", vec!["i64"; vars.len()].join(" ")));
        let facts = |rng: &mut Rng, ops: &mut Vec<String>, scale: usize| {
            for (n, a) in &rels {
                let rows = match rng.weighted(&[1, 3, 3, 2, 1]) {
                    0 => 0,
                    1 => 1 + rng.below(4),
                    2 => 4 + rng.below(10),
                    3 => 12 + rng.below(24),
                    _ => 33 + rng.below(28), // above the 32-tuple re-sort threshold
                } / scale;
                for _ in 0..rows {
                    // skew: low values are more frequent
                    let vals: Vec<String> = (0..*a)
                        .map(|_| {
                            let x = rng.range(0, dom - 1).min(rng.range(0, dom - 1));
                            x.to_string()
                        })
                        .collect();
                    ops.push(format!("({n} {})", vals.join(" ")));
                }
                // hub: one value of one column carries > 16 rows, so that the join
                // descends into cached trie children instead of refining inline
                if *a >= 2 && scale == 1 && rng.chance(1, 3) {
                    let col = rng.below(*a);
                    let hub = rng.range(0, dom - 1);
                    let wide = dom * 3;
                    for _ in 0..17 + rng.below(24) {
                        let vals: Vec<String> = (0..*a)
                            .map(|c| {
                                if c == col {
                                    hub.to_string()
                                } else if rng.chance(1, 3) {
                                    // diagonal rows keep repeated-variable atoms satisfiable
                                    "D".to_string()
                                } else {
                                    rng.range(0, wide).to_string()
                                }
                            })
                            .collect();
                        let d = rng.range(0, wide).to_string();
                        let vals: Vec<String> = vals.into_iter().map(|v| if v == "D" { d.clone() } else { v }).collect();
                        ops.push(format!("({n} {})", vals.join(" ")));
                    }
                }
            }
        };
        facts(&mut rng, &mut ops, 1);
        ops.push(format!("(rule ({}) ((Out {})))", atoms.join(" "), vars.join(" ")));
        // sibling rules in the same run: plans share trie roots and cached children
        let mut natoms = atoms.len();
        if rng.chance(1, 2) {
            for k in 1..=1 + rng.below(2) {
                let body = if rng.chance(2, 3) {
                    variant_body(&mut rng, &atoms, dom)
                } else {
                    let nv = 2 + rng.weighted(&[2, 4, 3, 1]);
                    gen_body(&mut rng, &rels, nv).0
                };
                let hv = grounded_vars(&body);
                if hv.is_empty() || body.is_empty() {
                    continue;
                }
                let hv: Vec<String> = hv.into_iter().take(4).collect();
                let decl = format!("(relation Out{k} ({}))", vec!["i64"; hv.len()].join(" "));
                // declarations precede the facts so that shrinking keeps them
                let at = ops.iter().position(|o| o.starts_with("(relation Out ")).unwrap_or(0);
                ops.insert(at + 1, decl);
                ops.push(format!("(rule ({}) ((Out{k} {})))", body.join(" "), hv.join(" ")));
                natoms = natoms.max(body.len());
            }
        }
        ops.push("(run 1)".into());
        facts(&mut rng, &mut ops, 3);
        ops.push("(run 1)".into());
        case.ops = ops;
        case.cfg.insert("atoms".into(), json!(natoms));
        if index % 8 == 7 {
            draw_threaded(&mut case, &mut cfg_rng);
            if let Some(serde_json::Value::Object(env)) = case.cfg.get_mut("env") {
                env.insert("EGGLOG_PARALLEL_DB_LEVEL_OP_CUTOFF".into(), json!("0"));
            }
        }
        if cfg_rng.chance(1, 2) {
            draw_knobs(&mut case, &mut cfg_rng);
        }
        case
    }
    fn check(&self, case: &Case) -> CaseResult {
        let mut res = CaseResult::new();
        let threads = case.threads() as usize;
        let natoms = case.cfg_u64("atoms", 0);
        maybe_sim(case, &mut res, |res| {
            // configuration swarm
            let mut engines: Vec<(&str, Engine)> = Vec::new();
            engines.push(("default", Engine::new(Mode::Plain, threads)));
            if threads == 1 {
                let mut e = Engine::new(Mode::Plain, 1);
                e.eg.no_decomp = true;
                engines.push(("no-decomp", e));
                let mut e = Engine::new(Mode::Plain, 1);
                e.eg.seminaive = false;
                engines.push(("naive", e));
                engines.push(("rule:no-decomp", Engine::new(Mode::Plain, 1)));
            }
            let mut m = Model::new();
            let mut derived = 0usize;
            for op in &case.ops {
                let mo = m.run(op);
                if let Err(crate::model::MErr::Unsupported(w)) = &mo {
                    res.inconclusive(&format!("model: unsupported ({})", w.split(' ').take(3).collect::<Vec<_>>().join(" ")));
                    return;
                }
                let md = dump::canonical(&m.raw());
                let mout = md.lines.iter().filter(|l| l.starts_with("Out")).count();
                for (name, e) in engines.iter_mut() {
                    let text = if *name == "rule:no-decomp" && op.starts_with("(rule") {
                        format!("{} :no-decomp)", &op[..op.len() - 1])
                    } else {
                        op.clone()
                    };
                    let o = e.run(&text);
                    if o.is_panic() {
                        res.violation("rule-run-panic", format!("[{name}] {op}: {}", o.brief()));
                        return;
                    }
                    if o.is_ok() != mo.is_ok() {
                        if !o.is_ok() && crate::exec::is_rejection(o.kind()) {
                            res.inconclusive("engine rejected a command the model accepted");
                            return;
                        }
                        res.violation("outcome-differs-from-model", format!("[{name}] {op}: engine {} model {:?}", o.brief(), mo));
                        return;
                    }
                    if op.starts_with("(run") {
                        let Ok((_, ed)) = e.dump() else {
                            res.violation("read-api-panic", format!("[{name}] after {op}"));
                            return;
                        };
                        res.count("rule_runs_compared", 1);
                        if ed.lines != md.lines {
                            res.violation(
                                "matches-differ-from-model",
                                format!("[{name}] after {op}: (left=engine right=nested-loop model) {}", ed.first_diff(&md)),
                            );
                            return;
                        }
                        res.state(ed.hash());
                    }
                }
                if op.starts_with("(run") {
                    derived = mout;
                    res.log(&format!("{op}: Out has {mout} rows"));
                }
            }
            res.nontrivial = derived >= 1 && natoms >= 3;
        });
        res
    }
}
