//! Lock-step execution of a history on the real engine and on the reference
//! model `M`, with the comparisons shared by C01, C05, C07, C13 and C14.

use super::common::*;
use crate::case::{Case, CaseResult};
use crate::dump::{self, Dump, RVal, RawDb};
use crate::exec::{Engine, Mode, Outcome, is_rejection};
use crate::model::{MErr, Model};
use crate::rng::Rng;

pub struct Opts {
    /// compare the `updated` flag of runs (monotone fragment without subsume/delete)
    pub compare_updated: bool,
    /// unroll `(run r n)` into single iterations
    pub unroll: bool,
    /// number of term pairs asked through `(check (= a b))` at sampled steps
    pub pair_checks: usize,
    /// compare extraction costs
    pub compare_extract: bool,
    pub max_rows: usize,
}

impl Default for Opts {
    fn default() -> Self {
        Opts {
            compare_updated: true,
            unroll: true,
            pair_checks: 24,
            compare_extract: true,
            max_rows: 400,
        }
    }
}

pub struct Lock {
    pub e: Engine,
    pub m: Model,
    pub last_dump: Option<Dump>,
    pub updated_iterations: u64,
    pub steps: u64,
}

fn strip(outs: &[String], opts: &Opts) -> Vec<String> {
    outs.iter()
        .filter(|o| {
            (opts.compare_updated || !o.starts_with("run updated="))
                && (opts.compare_extract || !o.starts_with("extract cost="))
                && !o.starts_with("block lines=")
                && *o != "variants"
        })
        .cloned()
        .collect()
}

type Names = std::collections::HashMap<(String, u64), (usize, String)>;

fn surf(v: &RVal, names: &Names) -> Option<String> {
    Some(match v {
        RVal::I(i) => i.to_string(),
        RVal::B(b) => b.to_string(),
        RVal::S(s) => format!("{s:?}"),
        RVal::Class(s, n) => names.get(&(s.clone(), *n))?.1.clone(),
        RVal::Vec(xs) if !xs.is_empty() => format!("(vec-of {})", xs.iter().map(|x| surf(x, names)).collect::<Option<Vec<_>>>()?.join(" ")),
        RVal::Set(xs) if !xs.is_empty() => format!("(set-of {})", xs.iter().map(|x| surf(x, names)).collect::<Option<Vec<_>>>()?.join(" ")),
        RVal::MSet(xs) if !xs.is_empty() => format!("(multiset-of {})", xs.iter().map(|x| surf(x, names)).collect::<Option<Vec<_>>>()?.join(" ")),
        _ => return None,
    })
}

/// Least-size name of every class, in egglog surface syntax.
pub fn surface_names(raw: &RawDb) -> std::collections::HashMap<(String, u64), String> {
    let mut names: Names = Default::default();
    loop {
        let mut changed = false;
        for t in raw.tables.iter().filter(|t| t.is_ctor && !t.is_let) {
            for r in &t.rows {
                let RVal::Class(s, n) = &r.out else { continue };
                let Some(args) = r.args.iter().map(|a| surf(a, &names)).collect::<Option<Vec<_>>>() else { continue };
                let txt = if args.is_empty() { format!("({})", t.name) } else { format!("({} {})", t.name, args.join(" ")) };
                let cand = (txt.len(), txt);
                let key = (s.clone(), *n);
                match names.get(&key) {
                    Some(cur) if *cur <= cand => {}
                    _ => {
                        names.insert(key, cand);
                        changed = true;
                    }
                }
            }
        }
        if !changed {
            break;
        }
    }
    names.into_iter().map(|(k, v)| (k, v.1)).collect()
}

/// Terms of the current database in surface syntax, with the class each denotes.
pub fn row_terms(raw: &RawDb) -> Vec<(String, (String, u64))> {
    let plain = surface_names(raw);
    let names: Names = plain.iter().map(|(k, v)| (k.clone(), (v.len(), v.clone()))).collect();
    let mut out = Vec::new();
    for t in raw.tables.iter().filter(|t| t.is_ctor && !t.is_let) {
        for r in &t.rows {
            let RVal::Class(s, n) = &r.out else { continue };
            let Some(args) = r.args.iter().map(|a| surf(a, &names)).collect::<Option<Vec<_>>>() else { continue };
            let txt = if args.is_empty() { format!("({})", t.name) } else { format!("({} {})", t.name, args.join(" ")) };
            if txt.len() < 300 {
                out.push((txt, (s.clone(), *n)));
            }
        }
    }
    out
}

impl Lock {
    pub fn new(threads: usize) -> Lock {
        Lock {
            e: Engine::new(Mode::Plain, threads),
            m: Model::new(),
            last_dump: None,
            updated_iterations: 0,
            steps: 0,
        }
    }

    /// Run one command on both sides and compare. Returns false when the run
    /// must stop (violation or inconclusive recorded in `res`).
    pub fn step(&mut self, res: &mut CaseResult, step: &str, opts: &Opts) -> bool {
        self.steps += 1;
        let eo = self.e.run(step);
        let snapshot = self.m.clone();
        let mo = self.m.run(step);
        res.log(&format!("{step} => {}", normalized(&eo)));
        if let Outcome::Panic(p) = &eo {
            res.inconclusive(&format!("engine panic (C09 territory): {}", p.split(' ').next().unwrap_or("")));
            return false;
        }
        match (&eo, &mo) {
            (_, Err(MErr::Unsupported(why))) => {
                res.count("model_unsupported", 1);
                res.inconclusive(&format!("model: unsupported ({})", why.split(' ').take(3).collect::<Vec<_>>().join(" ")));
                return false;
            }
            (Outcome::Err { kind, .. }, _) if is_rejection(kind) => {
                self.m = snapshot;
                if mo.is_ok() {
                    // the model does not type-check; never trust it over a rejection
                    res.inconclusive("engine rejected a command the model accepted (model has no type checker)");
                    return false;
                }
                return true;
            }
            (Outcome::Ok(_), Err(MErr::Fail(k))) if is_rejection(k) => {
                res.inconclusive("model rejected a command the engine accepted (model has no type checker)");
                return false;
            }
            (Outcome::Ok(eouts), Ok(mouts)) => {
                let en = strip(&normalize_outputs(eouts), opts);
                let mn = strip(mouts, opts);
                // print-function / print-size without argument are not modelled
                let skip = step.starts_with("(print-function") || step == "(print-size)" || (step.starts_with("(extract") && mouts.iter().any(|o| o == "variants"));
                if !skip && en != mn {
                    res.violation("outcome-differs-from-model", format!("{step}: engine {en:?} model {mn:?}"));
                    return false;
                }
                if eouts.iter().any(|o| o == "run updated=true") {
                    self.updated_iterations += 1;
                }
            }
            (Outcome::Err { kind, .. }, Err(MErr::Fail(mk))) => {
                if kind != mk {
                    res.violation("error-kind-differs-from-model", format!("{step}: engine err {kind}, model err {mk}"));
                    return false;
                }
                if kind == "Check" {
                    self.m = snapshot;
                    return true;
                }
                if kind == "Extract" {
                    // the expression was evaluated (terms inserted) before extraction failed
                    // on both sides; fall through to the dump comparison
                } else {
                // execution failure: no promised partial effect, nothing to compare afterwards
                res.count(&format!("fault:{}", kind.to_lowercase()), 1);
                res.inconclusive("history continues after an execution failure (no defined partial effect)");
                return false;
                }
            }
            (Outcome::Ok(_), Err(MErr::Fail(mk))) => {
                res.violation("engine-accepts-model-fails", format!("{step}: engine ok, model err {mk}"));
                return false;
            }
            (Outcome::Err { kind, .. }, Ok(_)) => {
                res.violation("engine-fails-model-accepts", format!("{step}: engine err {kind}, model ok"));
                return false;
            }
            (Outcome::Panic(_), _) => unreachable!(),
        }
        // databases
        let (eraw, ed) = match self.e.dump() {
            Ok(x) => x,
            Err(p) => {
                res.violation("read-api-panic", format!("after {step}: {p}"));
                return false;
            }
        };
        let md = dump::canonical(&self.m.raw());
        res.count("dumps_compared", 1);
        if ed.rows > opts.max_rows {
            res.inconclusive("size bound");
            return false;
        }
        if ed.orphans > 0 || md.orphans > 0 {
            res.count("inconclusive_orphan_steps", 1);
            self.last_dump = None;
            return true;
        }
        res.state(ed.hash());
        if ed.lines != md.lines {
            res.violation("dump-differs-from-model", format!("after {step}: (left=engine right=model) {}", ed.first_diff(&md)));
            return false;
        }
        if let Some(p) = eraw.problems.first() {
            res.violation("invariant", format!("after {step}: {p}"));
            return false;
        }
        self.last_dump = Some(ed);
        true
    }

    /// Ask the engine about sampled pairs of existing terms: `(check (= a b))`
    /// must succeed iff the model has them in one class.
    pub fn pair_checks(&mut self, res: &mut CaseResult, rng: &mut Rng, n: usize, after: &str) -> bool {
        if self.last_dump.is_none() {
            // the last comparison was skipped (a class without any finite term): no basis
            return true;
        }
        let raw = self.m.raw();
        let terms = row_terms(&raw);
        if terms.len() < 2 {
            return true;
        }
        for _ in 0..n {
            let (a, ca) = terms[rng.below(terms.len())].clone();
            // bias towards same-sort pairs
            let same: Vec<&(String, (String, u64))> = terms.iter().filter(|(_, c)| c.0 == ca.0).collect();
            let (b, cb) = (*same[rng.below(same.len())]).clone();
            let expect = ca == cb;
            let q = format!("(check (= {a} {b}))");
            let o = self.e.run(&q);
            res.count(if expect { "pair_checks_equal" } else { "pair_checks_unequal" }, 1);
            match (&o, expect) {
                (Outcome::Ok(_), true) => {}
                (Outcome::Err { kind, .. }, false) if kind == "Check" => {}
                (Outcome::Err { kind, .. }, _) if is_rejection(kind) => {
                    res.count("pair_check_refused", 1);
                }
                _ => {
                    res.violation(
                        if expect { "equality-missed" } else { "equality-invented" },
                        format!("after {after}: {q} => {}, congruence closure says equal={expect}", o.brief()),
                    );
                    return false;
                }
            }
        }
        true
    }
}

/// Generic lock-step run of `case.ops`.
pub fn run_lockstep(case: &Case, res: &mut CaseResult, opts: &Opts) {
    let threads = case.threads() as usize;
    let mut qrng = Rng::new(case.seed).fork("pairs");
    maybe_sim(case, res, |res| {
        let mut l = Lock::new(threads);
        let nops = case.ops.len();
        'outer: for (i, op) in case.ops.iter().enumerate() {
            let steps = if opts.unroll { unroll_run(op) } else { vec![op.clone()] };
            for step in steps {
                if !l.step(res, &step, opts) {
                    break 'outer;
                }
            }
            // pairwise equality questions at a few points and at the end
            if opts.pair_checks > 0 && (i + 1 == nops || qrng.chance(1, 6)) {
                let n = if i + 1 == nops { opts.pair_checks } else { opts.pair_checks / 4 + 1 };
                if !l.pair_checks(res, &mut qrng, n, op) {
                    break 'outer;
                }
            }
        }
        res.count("iterations_updated", l.updated_iterations);
        res.count("model_matches_applied", l.m.matches_applied);
        res.nontrivial = l.updated_iterations > 0 && l.m.total_rows() >= 3;
    });
}
