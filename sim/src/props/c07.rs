//! C07 — extraction returns a member of the class, at the minimum cost.

use super::common::*;
use super::{Budget, Property, Tier};
use crate::case::{Case, CaseResult};
use crate::dump;
use crate::exec::{Engine, Mode, Outcome, is_rejection};
use crate::model::{Kind, MErr, Model, Subst, V};
use crate::rng::Rng;
use crate::sexp::{self, Sexp};
use crate::wgen::{Features, Gen, to_text};

pub struct C07;

/// Check one extracted term against the model: membership, liveness of every
/// node, recomputed cost. Returns (class value, tree cost) or an error text.
fn audit_term(m: &mut Model, t: &Sexp) -> Result<(V, u64), String> {
    if let Some(i) = t.as_int() {
        return Ok((V::I(i), 1));
    }
    match t {
        Sexp::Atom(a) if a == "true" || a == "false" => return Ok((V::B(a == "true"), 1)),
        Sexp::Str(s) => return Ok((V::S(s.clone()), 1)),
        _ => {}
    }
    let Some(head) = t.head() else { return Err(format!("unexpected leaf {t}")) };
    let mut vals = Vec::new();
    let mut cost_children = 0u64;
    for a in t.args() {
        let (v, c) = audit_term(m, a)?;
        vals.push(m.canon(&v));
        cost_children = cost_children.saturating_add(c);
    }
    if let Some(ti) = m.table(head) {
        let tb = m.tables[ti].clone();
        if tb.kind != Kind::Ctor {
            return Err(format!("{head} is not a constructor"));
        }
        if tb.unextractable {
            return Err(format!("node {head} is declared :unextractable"));
        }
        match tb.rows.get(&vals) {
            None => Err(format!("node ({head} ..) of the extracted term is not a row of the database (deleted or never inserted)")),
            Some((_, true)) => Err(format!("node ({head} ..) of the extracted term is a subsumed row")),
            Some((o, false)) => Ok((m.canon(o), tb.cost.saturating_add(cost_children))),
        }
    } else {
        // container literal
        let v = m.eval(&Sexp::call(head, t.args().to_vec()), &Subst::new(), false).map_err(|e| format!("cannot evaluate {t}: {e:?}"))?;
        Ok((m.canon(&v), cost_children))
    }
}

impl Property for C07 {
    fn id(&self) -> &'static str {
        "C07"
    }
    fn level(&self) -> &'static str {
        "exploration"
    }
    fn technique(&self) -> &'static str {
        "deterministic simulation: extraction is queried on e-graphs reached through seeded histories (cycles, zero and saturating costs, ties, subsumption, deletion, unextractable constructors, containers, snapshots, different row orders from different schedules); every result is audited against the reference model (membership, liveness of nodes, recomputed cost, least-fixpoint optimum)"
    }
    fn rule(&self) -> &'static str {
        "case = seeded history with :cost annotations (0, small, and values near u64::MAX so that sums saturate), :unextractable constructors, subsume and delete, containers of e-classes, rewrites creating cyclic classes, then (extract t) and (extract t k) for sampled roots after every few commands and at the end. For each successful extraction the term is evaluated in the model: it must denote the class of t, every node must be a present, non-subsumed row of an extractable constructor, its recomputed saturating tree cost must equal the reported cost, and that cost must equal the model's least-fixpoint minimum; extraction must fail iff the model has no finite term; every variant must be in the class and rooted at a distinct e-node; extraction never panics. Non-trivial = >= 3 successful extractions audited on a database with a non-singleton class; distinct = distinct operation lists."
    }
    fn assumptions(&self) -> Vec<String> {
        vec![
            "the extractor is sequential and pure: the simulator supplies the states and row orders, the reference model decides (DESIGN §1)".into(),
            "cost of a base value is 1, of a container the sum of its elements (the default cost model)".into(),
        ]
    }
    fn budget(&self, tier: Tier) -> Budget {
        match tier {
            Tier::Quick => Budget { cases: 8000, wall_s: 120 },
            Tier::Thorough => Budget { cases: 200_000, wall_s: 1800 },
        }
    }
    fn generate(&self, seed: u64, index: u64, _tier: Tier) -> Case {
        let mut case = Case::new("C07", seed);
        let root = Rng::new(seed);
        let mut cfg_rng = root.fork("cfg");
        let mut f = Features::draw(&mut cfg_rng);
        f.costs = true;
        f.big_costs = cfg_rng.chance(1, 3);
        f.unextractable = cfg_rng.chance(1, 2);
        f.subsume = cfg_rng.chance(1, 2);
        f.rewrites = true;
        f.birewrite = cfg_rng.chance(1, 2);
        f.containers = cfg_rng.chance(1, 4);
        f.extract = true;
        f.prints = false;
        f.pushpop = cfg_rng.chance(1, 6);
        let mut g = Gen::new(root.fork("workload"), f);
        let mut ops = to_text(&g.gen_decls());
        let session = to_text(&g.gen_session());
        let mut rng = root.fork("extra");
        for op in session {
            ops.push(op);
            if rng.chance(1, 3) {
                ops.push(g.gen_extract().to_string());
            }
            if rng.chance(1, 6) {
                // cyclic classes and ties
                let s = g.rng.below(g.sig.sorts.len());
                let a = g.force_app(s);
                let b = g.ground_term(s, 1);
                ops.push(Sexp::call("union", vec![a, b]).to_string());
            }
        }
        if rng.chance(1, 3) {
            let s = g.rng.below(g.sig.sorts.len());
            let t = g.force_app(s);
            ops.push(Sexp::call("delete", vec![t]).to_string());
        }
        for _ in 0..2 + rng.below(4) {
            ops.push(g.gen_extract().to_string());
        }
        case.ops = ops;
        if cfg_rng.chance(1, 2) {
            draw_knobs(&mut case, &mut cfg_rng);
        }
        if index % 12 == 11 {
            draw_threaded(&mut case, &mut cfg_rng);
        }
        case
    }
    fn check(&self, case: &Case) -> CaseResult {
        let mut res = CaseResult::new();
        let threads = case.threads() as usize;
        maybe_sim(case, &mut res, |res| {
            let mut e = Engine::new(Mode::Plain, threads);
            let mut m = Model::new();
            let mut audited = 0u64;
            let mut in_sync = true;
            for op in &case.ops {
                let eo = e.run(op);
                res.log(&format!("{op} => {}", normalized(&eo)));
                if let Outcome::Panic(p) = &eo {
                    if op.starts_with("(extract") {
                        // tag histories whose declared costs can saturate u64 (the recorded finding needs that)
                        let saturating = case.ops.iter().any(|o| {
                            o.split(":cost ").skip(1).any(|rest| {
                                rest.split(|c: char| !c.is_ascii_digit()).next().and_then(|n| n.parse::<u64>().ok()).map(|n| n >= 1 << 60).unwrap_or(false)
                            })
                        });
                        let tag = if saturating { " [history declares costs near u64::MAX]" } else { "" };
                        res.violation("extract-panic", format!("{op}: {p}{tag}"));
                    } else {
                        res.inconclusive("engine panic outside extraction (C09 territory)");
                    }
                    return;
                }
                if !in_sync {
                    continue;
                }
                let snapshot = m.clone();
                let mo = m.run(op);
                match (&eo, &mo) {
                    (_, Err(MErr::Unsupported(w))) => {
                        res.inconclusive(&format!("model: unsupported ({})", w.split(' ').take(3).collect::<Vec<_>>().join(" ")));
                        return;
                    }
                    (Outcome::Err { kind, .. }, _) if is_rejection(kind) => {
                        m = snapshot;
                        if mo.is_ok() {
                            res.inconclusive("engine rejected a command the model accepted");
                            return;
                        }
                        continue;
                    }
                    (Outcome::Err { kind, .. }, Err(MErr::Fail(mk))) if kind == "Check" && mk == "Check" => {
                        m = snapshot;
                        continue;
                    }
                    _ => {}
                }
                let is_extract = op.starts_with("(extract");
                if is_extract {
                    let Ok(cmd) = sexp::parse(op) else { continue };
                    let root_expr = cmd.args()[0].clone();
                    let variants = cmd.args().get(1).and_then(|x| x.as_int()).unwrap_or(0);
                    let root_val = match m.eval(&root_expr, &Subst::new(), false) {
                        Ok(v) => m.canon(&v),
                        Err(_) => {
                            res.inconclusive("model cannot evaluate the extraction root");
                            return;
                        }
                    };
                    let costs = m.class_costs();
                    let best = match &root_val {
                        V::C(c) => costs.get(c).copied(),
                        _ => None,
                    };
                    match &eo {
                        Outcome::Ok(outs) if variants == 0 => {
                            let Some(line) = outs.iter().find(|o| o.starts_with("extract cost=")) else { continue };
                            let rest = &line["extract cost=".len()..];
                            let (cost_s, term_s) = rest.split_once(" term=").unwrap_or((rest, ""));
                            let reported: u64 = cost_s.parse().unwrap_or(u64::MAX);
                            if !matches!(root_val, V::C(_)) {
                                continue; // base value or container root: not audited
                            }
                            let Ok(term) = sexp::parse(term_s) else {
                                res.violation("extract-unparsable", format!("{op}: {term_s}"));
                                return;
                            };
                            match audit_term(&mut m, &term) {
                                Err(why) => {
                                    res.violation("extract-bad-node", format!("{op} returned {term_s}: {why}"));
                                    return;
                                }
                                Ok((v, tree_cost)) => {
                                    if v != root_val {
                                        res.violation("extract-not-in-class", format!("{op} returned {term_s}, which is not in the class of the root"));
                                        return;
                                    }
                                    if tree_cost != reported {
                                        res.violation("extract-cost-misreported", format!("{op} returned {term_s} with cost {reported}, its tree cost is {tree_cost}"));
                                        return;
                                    }
                                    match best {
                                        Some(b) if b == reported => {}
                                        Some(b) => {
                                            res.violation("extract-not-minimal", format!("{op} returned {term_s} at cost {reported}; the class has a term of cost {b}"));
                                            return;
                                        }
                                        None => {
                                            res.violation("extract-model-has-no-term", format!("{op} returned {term_s} but the model finds no extractable term"));
                                            return;
                                        }
                                    }
                                    audited += 1;
                                    res.count("extractions_audited", 1);
                                }
                            }
                        }
                        Outcome::Ok(outs) => {
                            // variants block: "(\n   t1\n   t2\n)"
                            let block = outs.iter().find(|o| o.starts_with('(')).cloned().unwrap_or_default();
                            let mut roots: Vec<(String, Vec<V>)> = Vec::new();
                            for line in block.lines().map(|l| l.trim()).filter(|l| !l.is_empty() && *l != "(" && *l != ")") {
                                let Ok(term) = sexp::parse(line) else { continue };
                                match audit_term(&mut m, &term) {
                                    Err(why) => {
                                        res.violation("variant-bad-node", format!("{op} returned {line}: {why}"));
                                        return;
                                    }
                                    Ok((v, _)) => {
                                        if v != root_val {
                                            res.violation("variant-not-in-class", format!("{op} returned {line}, not in the class of the root"));
                                            return;
                                        }
                                        let mut key = Vec::new();
                                        for a in term.args() {
                                            if let Ok((av, _)) = audit_term(&mut m, a) {
                                                key.push(m.canon(&av));
                                            }
                                        }
                                        let node = (term.head().unwrap_or("").to_string(), key);
                                        if roots.contains(&node) {
                                            res.violation("variants-share-enode", format!("{op}: two variants are rooted at the same e-node {line}"));
                                            return;
                                        }
                                        roots.push(node);
                                        res.count("variants_audited", 1);
                                    }
                                }
                            }
                        }
                        Outcome::Err { kind, .. } if kind == "Extract" => {
                            if variants == 0 && best.is_some() {
                                res.violation("extract-failed-but-term-exists", format!("{op} failed; the model has a term of cost {:?}", best));
                                return;
                            }
                            res.count("extract_failures_confirmed", 1);
                        }
                        _ => {}
                    }
                    continue;
                }
                // non-extract command: keep model and engine in step, compare dumps
                match (&eo, &mo) {
                    (Outcome::Ok(_), Ok(_)) => {}
                    (Outcome::Err { .. }, Err(MErr::Fail(_))) => {
                        // run-time failure: stop auditing (no defined partial effect)
                        in_sync = false;
                        continue;
                    }
                    _ => {
                        // semantic disagreement outside extraction is C01's business
                        res.inconclusive("engine and model disagree outside extraction");
                        return;
                    }
                }
                if let Ok((_, ed)) = e.dump() {
                    let md = dump::canonical(&m.raw());
                    if ed.rows > 400 {
                        res.inconclusive("size bound");
                        return;
                    }
                    if ed.orphans == 0 && md.orphans == 0 {
                        res.state(ed.hash());
                        if ed.lines != md.lines {
                            if std::env::var("EGSIM_STRICT").is_ok() {
                                res.violation("strict-dump", format!("after {op}: {}", ed.first_diff(&md)));
                                return;
                            }
                            res.inconclusive("engine and model databases differ (C01 territory)");
                            return;
                        }
                    }
                }
            }
            res.nontrivial = audited >= 3;
        });
        res
    }
}
