//! C16 — a core-relations table answers like a plain map from key to latest
//! merged row.
//!
//! A case is a table shape (`cfg`) plus an explicit list of operations in a
//! tiny s-expression language (`ops`).  `check` executes the operations against
//! the real `egglog-core-relations` API (`Database`, `SortedWritesTable`,
//! `DisplacedTable`) and, in lock-step, against a reference model that is a
//! `BTreeMap` from key to row.  After EVERY operation all stateless read paths
//! are compared (len, point lookups over the whole key domain, full scans by
//! three routes, a fixed set of constrained scans); cached read paths (column
//! indexes, rule-set queries, `updates_since` marks) are only exercised by
//! explicit read operations so that the distance between two refreshes of a
//! cached index varies.
//!
//! Operation language (all integers are small; columns are taken modulo the
//! arity, malformed operations are skipped so that shrunk cases stay legal):
//!
//! ```text
//! (ins k.. v..)       stage an insert of key k.. with values v.. at the current timestamp
//! (rem k..)           stage a removal
//! (union a b)         stage a union into the DisplacedTable
//! (merge)             Database::merge_all
//! (tick)              merge if something is staged, then advance the timestamp
//! (clear)             Database::clear_table on the table under test
//! (clone)             merge if needed, then Database::clone (kept as snapshot)
//! (swap)              continue on the snapshot, the old database becomes the snapshot
//! (rebuild)           merge if needed, then Database::apply_rebuild(uf, [t], ts)
//! (refresh v..)       merge if needed, then Database::refresh_rows_for_values([t], v.., ts)
//! (mark) / (since)    remember version() / compare updates_since(mark) with the model
//! (refine (c..))      refine / refine_one / refine_ref / split_fast_slow / scan_project
//! (fast c)            fast_subset
//! (scanp (cols) n (c..))  paged scan_project with projection
//! (idx col v)         ExecutionState::for_each_matching_col (cached column index)
//! (q strat ((a (e..) (c..)) ..))  rule-set query with 1..3 atoms; e = xN | const
//! c ::= (eq l r) | (eqc col v) | (lt col v) | (le col v) | (gt col v) | (ge col v)
//! ```

use super::{Budget, Isolation, Property, Tier};
use crate::case::{Case, CaseResult};
use crate::exec::guarded;
use crate::rng::{Rng, hash_bytes};
use crate::sexp::{self, Sexp};
use egglog_core_relations::{
    ColumnId, Constraint, Database, DisplacedTable, ExecutionState, ExternalFunctionId,
    MutationBuffer, Offset, PlanStrategy, QueryEntry, RuleSetBuilder, SortedWritesTable, Subset,
    Table, TableId, TableVersion, TaggedRowBuffer, Value, make_external_func,
};
use egglog_numeric_id::NumericId;
use serde_json::json;
use std::cell::Cell;
use std::collections::{BTreeMap, BTreeSet};
use std::sync::{Arc, Mutex};

pub struct C16;

// ---------------------------------------------------------------------------
// shape
// ---------------------------------------------------------------------------

#[derive(Clone, Copy, PartialEq, Eq, Debug)]
enum MergeKind {
    /// take the new row when the value columns differ
    New,
    /// always take the new row (rewrites the row even when nothing changed)
    NewAlways,
    /// keep the old row
    Old,
    /// lexicographic minimum of the value columns
    Min,
    /// column-wise sum modulo 5, always rewrites
    Sum,
}

impl MergeKind {
    fn name(self) -> &'static str {
        match self {
            MergeKind::New => "new",
            MergeKind::NewAlways => "newalways",
            MergeKind::Old => "old",
            MergeKind::Min => "min",
            MergeKind::Sum => "sum",
        }
    }
    fn parse(s: &str) -> MergeKind {
        match s {
            "newalways" => MergeKind::NewAlways,
            "old" => MergeKind::Old,
            "min" => MergeKind::Min,
            "sum" => MergeKind::Sum,
            _ => MergeKind::New,
        }
    }
    /// Result independent of the order in which colliding rows arrive.
    fn order_free(self) -> bool {
        matches!(self, MergeKind::Min | MergeKind::Sum)
    }
}

#[derive(Clone, Debug)]
struct Shape {
    /// the table under test is the DisplacedTable itself
    uf_only: bool,
    n_keys: usize,
    ts_col: Option<usize>,
    arity: usize,
    val_cols: Vec<usize>,
    merge: MergeKind,
    dom: u32,
    rebuild_cols: Vec<usize>,
    /// 0: one buffer per staged row, 1: one buffer per batch, 2: fresh_handle per row,
    /// 3: ExecutionState::stage_insert / stage_remove
    buf_mode: u8,
    /// >0: run with an installed thread pool of that many threads (sharded hash tables)
    pool: usize,
    /// the process runs with all parallel cut-offs at 0 (fresh process, `cfg.env`)
    par: bool,
    /// extra tables that receive exactly the writes of the table under test, so
    /// that merge_all sees >= 4 modified tables and takes the strata-aware path
    decoys: usize,
}

const SUM_MOD: u32 = 5;

const PAR_ENV: [&str; 4] = [
    "EGGLOG_PARALLEL_TABLE_OP_CUTOFF",
    "EGGLOG_PARALLEL_INDEX_CONSTRUCTION_CUTOFF",
    "EGGLOG_PARALLEL_REBUILD_CUTOFF",
    "EGGLOG_PARALLEL_DB_LEVEL_OP_CUTOFF",
];

fn has_env(case: &Case) -> bool {
    case.cfg
        .get("env")
        .and_then(|v| v.as_object())
        .is_some_and(|m| !m.is_empty())
}

impl Shape {
    fn from_case(case: &Case) -> Shape {
        let uf_only = case.cfg_str("kind") == Some("displaced");
        if uf_only {
            return Shape {
                uf_only,
                n_keys: 1,
                ts_col: Some(2),
                arity: 3,
                val_cols: vec![1],
                merge: MergeKind::New,
                dom: (case.cfg_u64("dom", 4) as u32).clamp(2, 10),
                rebuild_cols: vec![],
                buf_mode: (case.cfg_u64("buf", 0) % 4) as u8,
                pool: case.cfg_u64("pool", 0).min(8) as usize,
                par: has_env(case),
                decoys: 0,
            };
        }
        let n_keys = case.cfg_u64("n_keys", 1).min(4) as usize;
        let mut n_vals = case.cfg_u64("n_vals", 1).min(3) as usize;
        let sort = case.cfg_str("sort").unwrap_or("none").to_string();
        if n_keys + n_vals == 0 && sort == "none" {
            n_vals = 1;
        }
        let has_ts = sort != "none";
        let arity = n_keys + n_vals + usize::from(has_ts);
        let ts_col = match sort.as_str() {
            "first" => Some(n_keys),
            "last" => Some(arity - 1),
            _ => None,
        };
        let val_cols: Vec<usize> = (n_keys..arity).filter(|c| Some(*c) != ts_col).collect();
        let mut dom = (case.cfg_u64("dom", 4) as u32).clamp(2, 8);
        while (dom as u64).pow(n_keys as u32) > 256 {
            dom -= 1;
        }
        let mut rebuild_cols: Vec<usize> = case
            .cfg
            .get("rebuild")
            .and_then(|v| v.as_array())
            .map(|a| {
                a.iter()
                    .filter_map(|x| x.as_u64())
                    .map(|x| x as usize)
                    .filter(|c| *c < arity && Some(*c) != ts_col)
                    .collect()
            })
            .unwrap_or_default();
        rebuild_cols.sort();
        rebuild_cols.dedup();
        let mut merge = MergeKind::parse(case.cfg_str("merge").unwrap_or("new"));
        if !rebuild_cols.is_empty() && !merge.order_free() {
            // colliding rebuilt rows arrive in physical row order, which is not
            // part of the property: only order-free merge functions are legal
            merge = MergeKind::Min;
        }
        if has_env(case) && merge == MergeKind::New {
            // the parallel insert path pre-merges the rows of a batch among
            // themselves before merging with the table; for "take the new row if
            // it differs" that is observably different from one-by-one merging
            // (a -> b -> a keeps the old row), and neither is promised
            merge = MergeKind::Min;
        }
        let rebuild_cols_empty = rebuild_cols.is_empty();
        Shape {
            uf_only,
            n_keys,
            ts_col,
            arity,
            val_cols,
            merge,
            dom,
            rebuild_cols,
            buf_mode: (case.cfg_u64("buf", 0) % 4) as u8,
            pool: case.cfg_u64("pool", 0).min(8) as usize,
            par: has_env(case),
            decoys: if rebuild_cols_empty { case.cfg_u64("decoys", 0).min(4) as usize } else { 0 },
        }
    }

    fn has_uf(&self) -> bool {
        self.uf_only || !self.rebuild_cols.is_empty()
    }

    /// Build a full row from the numbers of an `(ins ..)` operation.
    fn make_row(&self, nums: &[u32], ts: u32) -> Vec<u32> {
        let mut row = vec![0u32; self.arity];
        let mut it = nums.iter().copied();
        for c in 0..self.n_keys {
            row[c] = it.next().unwrap_or(0) % self.dom;
        }
        for c in &self.val_cols {
            row[*c] = it.next().unwrap_or(0) % self.dom.max(SUM_MOD);
        }
        if let Some(t) = self.ts_col {
            row[t] = ts;
        }
        row
    }

    fn make_key(&self, nums: &[u32]) -> Vec<u32> {
        (0..self.n_keys)
            .map(|c| nums.get(c).copied().unwrap_or(0) % self.dom)
            .collect()
    }

    /// The merge function, shared by the model and by the closure handed to
    /// the real table (the merge function is an input of the table, not part
    /// of the system under test).
    fn merge_rows(&self, cur: &[u32], new: &[u32]) -> Option<Vec<u32>> {
        let vals = |r: &[u32]| -> Vec<u32> { self.val_cols.iter().map(|c| r[*c]).collect() };
        match self.merge {
            MergeKind::New => {
                if vals(cur) != vals(new) {
                    Some(new.to_vec())
                } else {
                    None
                }
            }
            MergeKind::NewAlways => Some(new.to_vec()),
            MergeKind::Old => None,
            MergeKind::Min => {
                if vals(new) < vals(cur) {
                    Some(new.to_vec())
                } else {
                    None
                }
            }
            MergeKind::Sum => {
                let mut out = new.to_vec();
                for c in &self.val_cols {
                    out[*c] = (cur[*c] + new[*c]) % SUM_MOD;
                }
                Some(out)
            }
        }
    }

    /// Every key of the (small) key domain.
    fn all_keys(&self) -> Vec<Vec<u32>> {
        let mut out: Vec<Vec<u32>> = vec![vec![]];
        for _ in 0..self.n_keys {
            let mut next = Vec::with_capacity(out.len() * self.dom as usize);
            for k in &out {
                for v in 0..self.dom {
                    let mut k2 = k.clone();
                    k2.push(v);
                    next.push(k2);
                }
            }
            out = next;
        }
        out
    }
}

// ---------------------------------------------------------------------------
// operations
// ---------------------------------------------------------------------------

#[derive(Clone, Debug, PartialEq, Eq)]
enum Con {
    Eq(usize, usize),
    EqC(usize, u32),
    Lt(usize, u32),
    Le(usize, u32),
    Gt(usize, u32),
    Ge(usize, u32),
}

impl Con {
    fn holds(&self, row: &[u32]) -> bool {
        match self {
            Con::Eq(l, r) => row[*l] == row[*r],
            Con::EqC(c, v) => row[*c] == *v,
            Con::Lt(c, v) => row[*c] < *v,
            Con::Le(c, v) => row[*c] <= *v,
            Con::Gt(c, v) => row[*c] > *v,
            Con::Ge(c, v) => row[*c] >= *v,
        }
    }
    fn real(&self) -> Constraint {
        let col = |c: &usize| ColumnId::from_usize(*c);
        let val = |v: &u32| Value::new(*v);
        match self {
            Con::Eq(l, r) => Constraint::Eq {
                l_col: col(l),
                r_col: col(r),
            },
            Con::EqC(c, v) => Constraint::EqConst {
                col: col(c),
                val: val(v),
            },
            Con::Lt(c, v) => Constraint::LtConst {
                col: col(c),
                val: val(v),
            },
            Con::Le(c, v) => Constraint::LeConst {
                col: col(c),
                val: val(v),
            },
            Con::Gt(c, v) => Constraint::GtConst {
                col: col(c),
                val: val(v),
            },
            Con::Ge(c, v) => Constraint::GeConst {
                col: col(c),
                val: val(v),
            },
        }
    }
    fn text(&self) -> String {
        match self {
            Con::Eq(l, r) => format!("(eq {l} {r})"),
            Con::EqC(c, v) => format!("(eqc {c} {v})"),
            Con::Lt(c, v) => format!("(lt {c} {v})"),
            Con::Le(c, v) => format!("(le {c} {v})"),
            Con::Gt(c, v) => format!("(gt {c} {v})"),
            Con::Ge(c, v) => format!("(ge {c} {v})"),
        }
    }
}

#[derive(Clone, Debug, PartialEq, Eq)]
enum Entry {
    Var(usize),
    Const(u32),
}

#[derive(Clone, Debug)]
struct Atom {
    entries: Vec<Entry>,
    cs: Vec<Con>,
}

#[derive(Clone, Debug)]
enum Op {
    Ins(Vec<u32>),
    Rem(Vec<u32>),
    Union(u32, u32),
    Merge,
    Tick,
    Clear,
    CloneDb,
    Swap,
    Rebuild,
    Refresh(Vec<u32>),
    Mark,
    Since,
    Refine(Vec<Con>),
    Fast(Con),
    ScanP {
        cols: Vec<usize>,
        n: usize,
        cs: Vec<Con>,
    },
    Idx(usize, u32),
    Query {
        strat: u8,
        atoms: Vec<Atom>,
    },
    Skip,
}

fn num(s: &Sexp) -> Option<u32> {
    s.as_int().and_then(|i| u32::try_from(i).ok()).map(|v| v.min(1 << 20))
}

fn nums(args: &[Sexp]) -> Option<Vec<u32>> {
    args.iter().map(num).collect()
}

fn parse_con(s: &Sexp, arity: usize) -> Option<Con> {
    let head = s.head()?;
    let a = s.args();
    if a.len() != 2 || arity == 0 {
        return None;
    }
    let x = num(&a[0])? as usize % arity;
    let y = num(&a[1])?;
    Some(match head {
        "eq" => Con::Eq(x, y as usize % arity),
        "eqc" => Con::EqC(x, y),
        "lt" => Con::Lt(x, y),
        "le" => Con::Le(x, y),
        "gt" => Con::Gt(x, y),
        "ge" => Con::Ge(x, y),
        _ => return None,
    })
}

fn parse_cons(s: &Sexp, arity: usize) -> Option<Vec<Con>> {
    s.as_list()?.iter().map(|c| parse_con(c, arity)).collect()
}

fn parse_op(text: &str, shape: &Shape) -> Op {
    let Ok(s) = sexp::parse(text) else {
        return Op::Skip;
    };
    let Some(head) = s.head() else {
        return Op::Skip;
    };
    let a = s.args();
    let arity = shape.arity;
    let parsed = (|| -> Option<Op> {
        Some(match head {
            "ins" => Op::Ins(nums(a)?),
            "rem" => Op::Rem(nums(a)?),
            "union" => {
                let v = nums(a)?;
                if v.len() != 2 {
                    return None;
                }
                Op::Union(v[0], v[1])
            }
            "merge" => Op::Merge,
            "tick" => Op::Tick,
            "clear" => Op::Clear,
            "clone" => Op::CloneDb,
            "swap" => Op::Swap,
            "rebuild" => Op::Rebuild,
            "refresh" => Op::Refresh(nums(a)?),
            "mark" => Op::Mark,
            "since" => Op::Since,
            "refine" => Op::Refine(parse_cons(a.first()?, arity)?),
            "fast" => Op::Fast(parse_con(a.first()?, arity)?),
            "scanp" => {
                if a.len() != 3 {
                    return None;
                }
                let cols: Vec<usize> = a[0]
                    .as_list()?
                    .iter()
                    .map(|c| num(c).map(|c| c as usize % arity))
                    .collect::<Option<_>>()?;
                if cols.is_empty() || cols.len() > 8 {
                    return None;
                }
                Op::ScanP {
                    cols,
                    n: (num(&a[1])? as usize).clamp(1, 1000),
                    cs: parse_cons(&a[2], arity)?,
                }
            }
            "idx" => {
                let v = nums(a)?;
                if v.len() != 2 {
                    return None;
                }
                Op::Idx(v[0] as usize % arity, v[1])
            }
            "q" => {
                if a.len() != 2 {
                    return None;
                }
                let strat = match a[0].as_atom()? {
                    "ps" => 0,
                    "mc" => 1,
                    _ => 2,
                };
                let mut atoms = Vec::new();
                for at in a[1].as_list()? {
                    if at.head() != Some("a") || at.args().len() != 2 {
                        return None;
                    }
                    let mut entries = Vec::new();
                    for e in at.args()[0].as_list()? {
                        let t = e.as_atom()?;
                        if let Some(rest) = t.strip_prefix('x') {
                            entries.push(Entry::Var(rest.parse::<usize>().ok()?.min(63)));
                        } else {
                            entries.push(Entry::Const(num(e)?));
                        }
                    }
                    if entries.len() != arity {
                        return None;
                    }
                    atoms.push(Atom {
                        entries,
                        cs: parse_cons(&at.args()[1], arity)?,
                    });
                }
                if atoms.is_empty() || atoms.len() > 3 {
                    return None;
                }
                // Every atom needs a variable: the planners ignore (Gj, PureSize) or
                // panic on (MinCover, plan.rs:1338) an atom that consists of constants
                // only. egglog itself never builds such an atom (every atom carries
                // at least an output or timestamp variable); that planner defect is
                // outside of what C16 states about tables, so such queries are skipped.
                if !atoms
                    .iter()
                    .all(|at| at.entries.iter().any(|e| matches!(e, Entry::Var(_))))
                {
                    return None;
                }
                Op::Query { strat, atoms }
            }
            _ => return None,
        })
    })();
    parsed.unwrap_or(Op::Skip)
}

// ---------------------------------------------------------------------------
// reference model
// ---------------------------------------------------------------------------

type Rows = BTreeMap<Vec<u32>, Vec<u32>>;

/// Model of a `SortedWritesTable`: key -> (row, write stamp).
#[derive(Clone, Default)]
struct TModel {
    rows: BTreeMap<Vec<u32>, (Vec<u32>, u64)>,
    pend_rem: Vec<Vec<u32>>,
    pend_ins: Vec<Vec<u32>>,
    /// number of rows ever appended (stamp of the next row)
    stamp: u64,
    /// predicted physical row count / stale count (reach counters only)
    phys: usize,
    stale: usize,
}

impl TModel {
    fn expect(&self) -> Rows {
        self.rows
            .iter()
            .map(|(k, (r, _))| (k.clone(), r.clone()))
            .collect()
    }
    fn pending(&self) -> bool {
        !self.pend_rem.is_empty() || !self.pend_ins.is_empty()
    }
}

/// Model of a `DisplacedTable`. The partition is modelled independently; which
/// member of a class is the leader is an internal decision of the table
/// ("all tie-breaks and other encoding decisions are made internally"), so
/// after every merge the rows are validated structurally against the
/// partition and then adopted as the expected map.
#[derive(Clone, Default)]
struct UfModel {
    class: Vec<u32>,
    /// child -> (leader, ts, stamp)
    rows: BTreeMap<u32, (u32, u32, u64)>,
    pend: Vec<(u32, u32, u32)>,
    unions_ok: usize,
    stamp: u64,
}

impl UfModel {
    fn new(dom: u32) -> UfModel {
        UfModel {
            class: (0..dom).collect(),
            ..Default::default()
        }
    }
    fn expect(&self) -> Rows {
        self.rows
            .iter()
            .map(|(c, (l, t, _))| (vec![*c], vec![*c, *l, *t]))
            .collect()
    }
    fn leader(&self, v: u32) -> u32 {
        self.rows.get(&v).map(|r| r.0).unwrap_or(v)
    }
    fn reset(&mut self) {
        let n = self.class.len() as u32;
        self.class = (0..n).collect();
        self.rows.clear();
        self.pend.clear();
        self.unions_ok = 0;
    }
}

#[derive(Clone, Default)]
struct Model {
    t: Option<TModel>,
    uf: Option<UfModel>,
    ts: u32,
}

impl Model {
    fn pending(&self) -> bool {
        self.t.as_ref().is_some_and(|t| t.pending())
            || self.uf.as_ref().is_some_and(|u| !u.pend.is_empty())
    }
    fn hash(&self) -> u64 {
        let mut h: u64 = 0xcbf2_9ce4_8422_2325;
        let mut put = |xs: &[u32]| {
            for x in xs {
                h = hash_bytes(h, &x.to_le_bytes());
            }
            h = hash_bytes(h, b"|");
        };
        if let Some(t) = &self.t {
            for (_, (r, _)) in &t.rows {
                put(r);
            }
            put(&[u32::MAX]);
            for r in &t.pend_rem {
                put(r);
            }
            put(&[u32::MAX]);
            for r in &t.pend_ins {
                put(r);
            }
        }
        if let Some(u) = &self.uf {
            put(&[u32::MAX - 1]);
            for (c, (l, t, _)) in &u.rows {
                put(&[*c, *l, *t]);
            }
            for (a, b, t) in &u.pend {
                put(&[*a, *b, *t]);
            }
        }
        h
    }
}

// ---------------------------------------------------------------------------
// one side (database + model); a case has a main side and maybe a snapshot
// ---------------------------------------------------------------------------

struct Fail {
    class: String,
    detail: String,
}

fn fail<T>(class: &str, detail: String) -> Result<T, Fail> {
    Err(Fail {
        class: class.to_string(),
        detail,
    })
}

thread_local! {
    /// label of the core-relations call in flight (for panic reports)
    static SITE: Cell<&'static str> = const { Cell::new("") };
}

fn at(site: &'static str) {
    SITE.with(|s| s.set(site));
}

struct Side {
    db: Database,
    m: Model,
    t_id: Option<TableId>,
    uf_id: Option<TableId>,
    decoys: Vec<TableId>,
    rec: ExternalFunctionId,
    t_mark: Option<(TableVersion, u64)>,
    uf_mark: Option<(TableVersion, u64)>,
    shared_t: Option<Box<dyn MutationBuffer>>,
    shared_uf: Option<Box<dyn MutationBuffer>>,
    shared_decoys: Vec<Box<dyn MutationBuffer>>,
}

type MatchLog = Arc<Mutex<Vec<Vec<u32>>>>;

#[derive(Default)]
struct Stats {
    collisions: u64,
    compactions: u64,
    generation_bumps: u64,
    clears: u64,
    clones: u64,
    swaps: u64,
    queries: u64,
    query_matches: u64,
    reads: u64,
    merges: u64,
    rebuilds: u64,
    rebuilt_rows: u64,
    refreshed_rows: u64,
    unions_ok: u64,
    idx_reads: u64,
    fast_some: u64,
    fast_none: u64,
    since_checked: u64,
    since_invalidated: u64,
    skipped: u64,
    max_stale: u64,
}

fn vals(row: &[u32]) -> Vec<Value> {
    row.iter().map(|v| Value::new(*v)).collect()
}

fn unvals(row: &[Value]) -> Vec<u32> {
    row.iter().map(|v| v.rep()).collect()
}

fn buf_rows(buf: &TaggedRowBuffer) -> Vec<Vec<u32>> {
    let mut out: Vec<Vec<u32>> = buf.iter().map(|(_, r)| unvals(r)).collect();
    out.sort();
    out
}

fn scan_subset(db: &Database, id: TableId, sub: &Subset) -> Vec<Vec<u32>> {
    at("scan");
    let buf = db.get_table(id).scan(sub.as_ref());
    buf_rows(&buf)
}

fn filter(expect: &Rows, cs: &[Con]) -> Vec<Vec<u32>> {
    // BTreeMap iteration is sorted by key, rows start with the key: sorted
    let mut v: Vec<Vec<u32>> = expect
        .values()
        .filter(|r| cs.iter().all(|c| c.holds(r)))
        .cloned()
        .collect();
    v.sort();
    v
}

fn diff(what: &str, got: &[Vec<u32>], want: &[Vec<u32>]) -> String {
    let g: BTreeSet<&Vec<u32>> = got.iter().collect();
    let w: BTreeSet<&Vec<u32>> = want.iter().collect();
    let extra: Vec<&&Vec<u32>> = g.difference(&w).take(3).collect();
    let missing: Vec<&&Vec<u32>> = w.difference(&g).take(3).collect();
    let dup = got.len() != g.len();
    format!(
        "{what}: got {} rows, model {} rows; unexpected {:?}; missing {:?}{}",
        got.len(),
        want.len(),
        extra,
        missing,
        if dup { "; duplicates returned" } else { "" }
    )
}

struct TableView<'a> {
    db: &'a Database,
    id: TableId,
    name: &'static str,
    arity: usize,
    is_uf: bool,
    ts_col: Option<usize>,
    cur_ts: u32,
}

impl TableView<'_> {
    /// Stateless reads, compared after every operation.
    fn battery(&self, expect: &Rows, keys: &[Vec<u32>]) -> Result<usize, Fail> {
        let t = self.db.get_table(self.id);
        let n = self.name;
        at("len");
        let len = t.len();
        if len != expect.len() {
            return fail(
                "len-mismatch",
                format!("{n}: len() = {len}, model has {} rows", expect.len()),
            );
        }
        // point lookups: hits and misses
        for k in keys {
            at("get_row");
            let got = t.get_row(&vals(k)).map(|r| unvals(&r.vals));
            let want = expect.get(k);
            if got.as_ref() != want {
                return fail(
                    "get-row-mismatch",
                    format!("{n}: get_row({k:?}) = {got:?}, model {want:?}"),
                );
            }
            // get_row_column on the last column (for the displaced table the
            // leader column is answered from the union-find even for absent
            // keys, by design: use the timestamp column there)
            let c = self.arity - 1;
            at("get_row_column");
            let gc = t.get_row_column(&vals(k), ColumnId::from_usize(c)).map(|v| v.rep());
            let wc = want.map(|r| r[c]);
            if gc != wc {
                return fail(
                    "get-row-mismatch",
                    format!("{n}: get_row_column({k:?}, {c}) = {gc:?}, model {wc:?}"),
                );
            }
        }
        // full scans: wrapper scan, paged scan_bounded, scan_generic
        let want_all = filter(expect, &[]);
        at("all");
        let all = t.all();
        let got = scan_subset(self.db, self.id, &all);
        if got != want_all {
            return fail("scan-mismatch", diff(&format!("{n}: scan(all)"), &got, &want_all));
        }
        {
            at("scan_bounded");
            let mut buf = TaggedRowBuffer::new(self.arity);
            let mut cur = Offset::new(0);
            let mut guard = 0;
            while let Some(next) = t.scan_bounded(all.as_ref(), cur, 3, &mut buf) {
                cur = next;
                guard += 1;
                if guard > 100_000 {
                    return fail("scan-mismatch", format!("{n}: scan_bounded does not terminate"));
                }
            }
            let got = buf_rows(&buf);
            if got != want_all {
                return fail(
                    "scan-mismatch",
                    diff(&format!("{n}: paged scan_bounded(all, 3)"), &got, &want_all),
                );
            }
        }
        {
            at("scan_generic");
            let mut got: Vec<Vec<u32>> = Vec::new();
            if self.is_uf {
                if let Some(d) = t.as_any().downcast_ref::<DisplacedTable>() {
                    d.scan_generic(all.as_ref(), |_, r| got.push(unvals(r)));
                }
            } else if let Some(s) = t.as_any().downcast_ref::<SortedWritesTable>() {
                s.scan_generic(all.as_ref(), |_, r| got.push(unvals(r)));
            }
            got.sort();
            if got != want_all {
                return fail(
                    "scan-mismatch",
                    diff(&format!("{n}: scan_generic(all)"), &got, &want_all),
                );
            }
        }
        // a fixed set of constrained scans
        let mut fixed: Vec<Con> = Vec::new();
        for c in 0..self.arity {
            if Some(c) != self.ts_col {
                fixed.push(Con::EqC(c, 1));
            }
        }
        if let Some(tc) = self.ts_col {
            fixed.push(Con::Lt(tc, self.cur_ts));
            fixed.push(Con::Ge(tc, self.cur_ts));
            fixed.push(Con::EqC(tc, self.cur_ts.saturating_sub(1)));
        }
        if self.arity >= 2 {
            fixed.push(Con::Eq(0, self.arity - 1));
        }
        for c in &fixed {
            let want = filter(expect, std::slice::from_ref(c));
            at("refine_one");
            let sub = t.refine_one(t.all(), &c.real());
            let got = scan_subset(self.db, self.id, &sub);
            if got != want {
                return fail(
                    "refine-mismatch",
                    diff(&format!("{n}: refine_one(all, {})", c.text()), &got, &want),
                );
            }
            at("fast_subset");
            if let Some(sub) = t.fast_subset(&c.real()) {
                let got = scan_subset(self.db, self.id, &sub);
                if got != want {
                    return fail(
                        "subset-mismatch",
                        diff(&format!("{n}: fast_subset({})", c.text()), &got, &want),
                    );
                }
            }
        }
        Ok(len)
    }

    /// All routes to evaluate a list of constraints.
    fn constraints(&self, expect: &Rows, cs: &[Con]) -> Result<Vec<Vec<u32>>, Fail> {
        let t = self.db.get_table(self.id);
        let n = self.name;
        let want = filter(expect, cs);
        let real: Vec<Constraint> = cs.iter().map(|c| c.real()).collect();
        let txt: Vec<String> = cs.iter().map(|c| c.text()).collect();
        let txt = txt.join(" ");
        at("refine");
        let sub = t.refine(t.all(), &real);
        let got = scan_subset(self.db, self.id, &sub);
        if got != want {
            return fail("refine-mismatch", diff(&format!("{n}: refine(all, [{txt}])"), &got, &want));
        }
        at("refine_ref");
        let all = t.all();
        let sub = t.refine_ref(all.as_ref(), &real, true);
        let got = scan_subset(self.db, self.id, &sub);
        if got != want {
            return fail(
                "refine-mismatch",
                diff(&format!("{n}: refine_ref(all, [{txt}], live)"), &got, &want),
            );
        }
        at("refine_one-chain");
        let mut sub = t.refine_live(t.all());
        for c in &real {
            sub = t.refine_one(sub, c);
        }
        let got = scan_subset(self.db, self.id, &sub);
        if got != want {
            return fail(
                "refine-mismatch",
                diff(&format!("{n}: refine_live + refine_one chain [{txt}]"), &got, &want),
            );
        }
        at("split_fast_slow");
        let (sub, _fast, slow) = t.split_fast_slow(&real);
        at("refine(slow)");
        let sub = t.refine(sub, &slow);
        let got = scan_subset(self.db, self.id, &sub);
        if got != want {
            return fail(
                "subset-mismatch",
                diff(&format!("{n}: split_fast_slow([{txt}]) + refine(slow)"), &got, &want),
            );
        }
        at("scan_project");
        let cols: Vec<ColumnId> = (0..self.arity).map(ColumnId::from_usize).collect();
        let mut buf = TaggedRowBuffer::new(self.arity);
        let all = t.all();
        let mut cur = Offset::new(0);
        while let Some(next) = t.scan_project(all.as_ref(), &cols, cur, 5, &real, &mut buf) {
            cur = next;
        }
        let got = buf_rows(&buf);
        if got != want {
            return fail(
                "scan-mismatch",
                diff(&format!("{n}: scan_project(all, *, [{txt}])"), &got, &want),
            );
        }
        Ok(want)
    }

    fn fast(&self, expect: &Rows, c: &Con) -> Result<Option<Vec<Vec<u32>>>, Fail> {
        let t = self.db.get_table(self.id);
        at("fast_subset");
        let Some(sub) = t.fast_subset(&c.real()) else {
            return Ok(None);
        };
        let want = filter(expect, std::slice::from_ref(c));
        let got = scan_subset(self.db, self.id, &sub);
        if got != want {
            return fail(
                "subset-mismatch",
                diff(&format!("{}: fast_subset({})", self.name, c.text()), &got, &want),
            );
        }
        // refining a fast subset by the same constraint must not change it
        at("refine_one(fast)");
        let sub2 = t.refine_one(sub, &c.real());
        let got = scan_subset(self.db, self.id, &sub2);
        if got != want {
            return fail(
                "subset-mismatch",
                diff(
                    &format!("{}: refine_one(fast_subset(c), c) with c = {}", self.name, c.text()),
                    &got,
                    &want,
                ),
            );
        }
        Ok(Some(want))
    }

    fn scan_project(
        &self,
        expect: &Rows,
        cols: &[usize],
        n: usize,
        cs: &[Con],
    ) -> Result<Vec<Vec<u32>>, Fail> {
        let t = self.db.get_table(self.id);
        let mut want: Vec<Vec<u32>> = expect
            .values()
            .filter(|r| cs.iter().all(|c| c.holds(r)))
            .map(|r| cols.iter().map(|c| r[*c]).collect())
            .collect();
        want.sort();
        let real: Vec<Constraint> = cs.iter().map(|c| c.real()).collect();
        let rcols: Vec<ColumnId> = cols.iter().map(|c| ColumnId::from_usize(*c)).collect();
        at("scan_project");
        let mut buf = TaggedRowBuffer::new(cols.len());
        let all = t.all();
        let mut cur = Offset::new(0);
        let mut guard = 0;
        while let Some(next) = t.scan_project(all.as_ref(), &rcols, cur, n, &real, &mut buf) {
            cur = next;
            guard += 1;
            if guard > 100_000 {
                return fail("scan-mismatch", "scan_project does not terminate".to_string());
            }
        }
        let got = buf_rows(&buf);
        if got != want {
            return fail(
                "scan-mismatch",
                diff(
                    &format!("{}: scan_project(all, {cols:?}, page {n}, {} constraints)", self.name, cs.len()),
                    &got,
                    &want,
                ),
            );
        }
        Ok(want)
    }

    fn index_read(&self, expect: &Rows, col: usize, v: u32) -> Result<Vec<Vec<u32>>, Fail> {
        let want = filter(expect, &[Con::EqC(col, v)]);
        let mut got: Vec<Vec<u32>> = Vec::new();
        at("for_each_matching_col");
        self.db.with_execution_state(None, |st: &mut ExecutionState| {
            st.for_each_matching_col(self.id, ColumnId::from_usize(col), Value::new(v), |row| {
                got.push(unvals(row))
            });
        });
        got.sort();
        if got != want {
            return fail(
                "index-mismatch",
                diff(
                    &format!("{}: for_each_matching_col(col {col} = {v})", self.name),
                    &got,
                    &want,
                ),
            );
        }
        Ok(want)
    }
}

/// Nested-loop evaluation of a conjunctive query over the expected rows.
fn eval_query(expect: &Rows, atoms: &[Atom], vars: &[usize]) -> Vec<Vec<u32>> {
    fn go(
        rows: &[&Vec<u32>],
        atoms: &[Atom],
        i: usize,
        env: &mut BTreeMap<usize, u32>,
        vars: &[usize],
        out: &mut Vec<Vec<u32>>,
    ) {
        if i == atoms.len() {
            out.push(vars.iter().map(|v| env[v]).collect());
            return;
        }
        let atom = &atoms[i];
        'rows: for r in rows {
            if !atom.cs.iter().all(|c| c.holds(r)) {
                continue;
            }
            let mut bound: Vec<usize> = Vec::new();
            for (c, e) in atom.entries.iter().enumerate() {
                let ok = match e {
                    Entry::Const(v) => r[c] == *v,
                    Entry::Var(x) => match env.get(x) {
                        Some(v) => *v == r[c],
                        None => {
                            env.insert(*x, r[c]);
                            bound.push(*x);
                            true
                        }
                    },
                };
                if !ok {
                    for b in &bound {
                        env.remove(b);
                    }
                    continue 'rows;
                }
            }
            go(rows, atoms, i + 1, env, vars, out);
            for b in &bound {
                env.remove(b);
            }
        }
    }
    let rows: Vec<&Vec<u32>> = expect.values().collect();
    let mut out = Vec::new();
    go(&rows, atoms, 0, &mut BTreeMap::new(), vars, &mut out);
    out.sort();
    out
}

impl Side {
    fn new(shape: &Shape, log: &MatchLog) -> Side {
        let mut db = Database::new();
        let mut m = Model::default();
        let mut uf_id = None;
        let mut t_id = None;
        if shape.has_uf() {
            uf_id = Some(db.add_table(
                DisplacedTable::default(),
                std::iter::empty(),
                std::iter::empty(),
            ));
            m.uf = Some(UfModel::new(shape.dom));
        }
        let mut decoys = Vec::new();
        if !shape.uf_only {
            let mk = |shape: &Shape| {
                let sh = shape.clone();
                SortedWritesTable::new(
                    shape.n_keys,
                    shape.arity,
                    shape.ts_col.map(ColumnId::from_usize),
                    shape.rebuild_cols.iter().map(|c| ColumnId::from_usize(*c)).collect(),
                    Box::new(move |_st, cur, new, out| {
                        match sh.merge_rows(&unvals(cur), &unvals(new)) {
                            Some(r) => {
                                out.extend(r.iter().map(|v| Value::new(*v)));
                                true
                            }
                            None => false,
                        }
                    }),
                )
            };
            let tid = db.add_table(mk(shape), std::iter::empty(), std::iter::empty());
            t_id = Some(tid);
            m.t = Some(TModel::default());
            for i in 0..shape.decoys {
                // declare read dependencies so that the tables land in different strata
                let deps: Vec<TableId> = if i % 2 == 0 { vec![tid] } else { vec![] };
                decoys.push(db.add_table(mk(shape), deps, std::iter::empty()));
            }
        }
        let log = log.clone();
        let rec = db.add_external_function(Box::new(make_external_func(
            move |_st: &mut ExecutionState, args: &[Value]| {
                log.lock().unwrap().push(unvals(args));
                Some(Value::new(0))
            },
        )));
        Side {
            db,
            m,
            t_id,
            uf_id,
            decoys,
            rec,
            t_mark: None,
            uf_mark: None,
            shared_t: None,
            shared_uf: None,
            shared_decoys: Vec::new(),
        }
    }

    fn snapshot(&self) -> Side {
        at("Database::clone");
        Side {
            db: self.db.clone(),
            m: self.m.clone(),
            t_id: self.t_id,
            uf_id: self.uf_id,
            decoys: self.decoys.clone(),
            rec: self.rec,
            t_mark: self.t_mark.clone(),
            uf_mark: self.uf_mark.clone(),
            shared_t: None,
            shared_uf: None,
            shared_decoys: Vec::new(),
        }
    }

    /// Drop the per-batch buffers so that their rows reach the tables' queues.
    fn flush(&mut self) {
        at("MutationBuffer::drop");
        self.shared_t = None;
        self.shared_uf = None;
        self.shared_decoys.clear();
    }

    /// Stage through an `ExecutionState` (the path rule actions take).
    fn stage_exec(&mut self, uf: bool, insert: bool, row: &[Value]) {
        let id = if uf { self.uf_id } else { self.t_id };
        let Some(id) = id else { return };
        let mut ids = vec![id];
        if !uf {
            ids.extend(self.decoys.iter().copied());
        }
        at("ExecutionState::stage");
        self.db.with_execution_state(None, |st: &mut ExecutionState| {
            for id in &ids {
                if insert {
                    st.stage_insert(*id, row);
                } else {
                    st.stage_remove(*id, row);
                }
            }
        });
    }

    fn stage(&mut self, shape: &Shape, uf: bool, f: impl Fn(&mut dyn MutationBuffer)) {
        let id = if uf { self.uf_id } else { self.t_id };
        let Some(id) = id else { return };
        if !uf && !self.decoys.is_empty() {
            if shape.buf_mode == 1 {
                if self.shared_decoys.is_empty() {
                    at("Database::new_buffer");
                    self.shared_decoys = self.decoys.iter().map(|d| self.db.new_buffer(*d)).collect();
                }
                at("stage");
                for b in self.shared_decoys.iter_mut() {
                    f(b.as_mut());
                }
            } else {
                for d in &self.decoys {
                    at("Database::new_buffer");
                    let mut b = self.db.new_buffer(*d);
                    at("stage");
                    f(b.as_mut());
                }
            }
        }
        match shape.buf_mode {
            1 => {
                let slot = if uf { &mut self.shared_uf } else { &mut self.shared_t };
                if slot.is_none() {
                    at("Database::new_buffer");
                    *slot = Some(self.db.new_buffer(id));
                }
                at("stage");
                f(slot.as_mut().unwrap().as_mut());
            }
            2 => {
                at("Database::new_buffer");
                let root = self.db.new_buffer(id);
                at("fresh_handle");
                let mut h = root.fresh_handle();
                at("stage");
                f(h.as_mut());
            }
            _ => {
                at("Database::new_buffer");
                let mut b = self.db.new_buffer(id);
                at("stage");
                f(b.as_mut());
            }
        }
    }

    fn view_t<'a>(&'a self, shape: &Shape) -> Option<TableView<'a>> {
        self.t_id.map(|id| TableView {
            db: &self.db,
            id,
            name: "t",
            arity: shape.arity,
            is_uf: false,
            ts_col: shape.ts_col,
            cur_ts: self.m.ts,
        })
    }

    fn view_uf(&self) -> Option<TableView<'_>> {
        self.uf_id.map(|id| TableView {
            db: &self.db,
            id,
            name: "uf",
            arity: 3,
            is_uf: true,
            ts_col: Some(2),
            cur_ts: self.m.ts,
        })
    }

    /// The table the explicit read operations address.
    fn tut<'a>(&'a self, shape: &Shape) -> (TableView<'a>, Rows) {
        if shape.uf_only {
            (self.view_uf().unwrap(), self.m.uf.as_ref().unwrap().expect())
        } else {
            (self.view_t(shape).unwrap(), self.m.t.as_ref().unwrap().expect())
        }
    }

    fn merge(&mut self, shape: &Shape, st: &mut Stats) -> Result<(), Fail> {
        self.flush();
        let batch_ts = self.m.ts;
        // ---- model
        if let Some(t) = &mut self.m.t {
            for k in std::mem::take(&mut t.pend_rem) {
                if t.rows.remove(&k).is_some() {
                    t.stale += 1;
                }
            }
            for row in std::mem::take(&mut t.pend_ins) {
                let key = row[..shape.n_keys].to_vec();
                match t.rows.get(&key) {
                    None => {
                        t.rows.insert(key, (row, t.stamp));
                        t.stamp += 1;
                        t.phys += 1;
                    }
                    Some((cur, _)) => {
                        st.collisions += 1;
                        if let Some(out) = shape.merge_rows(cur, &row) {
                            t.rows.insert(key, (out, t.stamp));
                            t.stamp += 1;
                            t.phys += 1;
                            t.stale += 1;
                        }
                    }
                }
            }
            st.max_stale = st.max_stale.max(t.stale as u64);
            if t.stale > std::cmp::max(16, t.phys / 2) {
                st.compactions += 1;
                t.phys -= t.stale;
                t.stale = 0;
            }
        }
        let mut new_unions = 0usize;
        if let Some(u) = &mut self.m.uf {
            for (a, b, _) in std::mem::take(&mut u.pend) {
                let (ca, cb) = (u.class[a as usize], u.class[b as usize]);
                if ca != cb {
                    for c in u.class.iter_mut() {
                        if *c == cb {
                            *c = ca;
                        }
                    }
                    new_unions += 1;
                }
            }
            u.unions_ok += new_unions;
            st.unions_ok += new_unions as u64;
        }
        // ---- real
        let before: Vec<Option<TableVersion>> = [self.t_id, self.uf_id]
            .iter()
            .map(|id| id.map(|id| self.db.get_table(id).version()))
            .collect();
        at("Database::merge_all");
        self.db.merge_all();
        st.merges += 1;
        if let (Some(id), Some(b)) = (self.t_id, &before[0]) {
            at("version");
            if self.db.get_table(id).version().major != b.major {
                st.generation_bumps += 1;
            }
        }
        if let Err(first) = self.post_merge(batch_ts, new_unions) {
            // Diagnose one specific failure mode under a stable class: merge_all
            // skipped a table that has staged rows (its change notification was
            // lost). A forced merge of every table then makes the rows visible.
            for id in self.t_id.into_iter().chain(self.uf_id).chain(self.decoys.iter().copied()) {
                at("Database::merge_table");
                self.db.merge_table(id);
            }
            if self.post_merge(batch_ts, new_unions).is_ok() {
                return fail(
                    "merge-skipped",
                    format!(
                        "Database::merge_all left rows staged through Database::new_buffer / ExecutionState unmerged; a forced merge_table afterwards makes them visible (first symptom: {}: {})",
                        first.class, first.detail
                    ),
                );
            }
            return Err(first);
        }
        Ok(())
    }

    /// The merged tables hold exactly the model's rows.
    fn post_merge(&mut self, batch_ts: u32, new_unions: usize) -> Result<(), Fail> {
        if let Some(id) = self.t_id {
            let e = self.m.t.as_ref().unwrap().expect();
            let want = filter(&e, &[]);
            at("len");
            let len = self.db.get_table(id).len();
            at("all");
            let all = self.db.get_table(id).all();
            let got = scan_subset(&self.db, id, &all);
            if len != e.len() {
                return fail("len-mismatch", format!("t: len() = {len}, model has {} rows", e.len()));
            }
            if got != want {
                return fail("scan-mismatch", diff("t: scan(all)", &got, &want));
            }
        }
        self.check_decoys()?;
        if self.uf_id.is_some() {
            self.adopt_uf(batch_ts, new_unions)?;
        }
        Ok(())
    }

    /// Validate the rows of the displaced table against the modelled
    /// partition, then adopt them as the expected map.
    fn adopt_uf(&mut self, batch_ts: u32, new_unions: usize) -> Result<(), Fail> {
        let id = self.uf_id.unwrap();
        at("all");
        let all = self.db.get_table(id).all();
        let rows = scan_subset(&self.db, id, &all);
        let u = self.m.uf.as_mut().unwrap();
        let dom = u.class.len() as u32;
        let bad = |why: String| -> Result<(), Fail> {
            fail("uf-structure-mismatch", format!("uf after merge: {why}; rows {rows:?}"))
        };
        if rows.len() != u.unions_ok {
            return fail(
                "len-mismatch",
                format!(
                    "uf: scan(all) has {} rows after {} effective unions; rows {rows:?}",
                    rows.len(),
                    u.unions_ok
                ),
            );
        }
        let mut seen: BTreeMap<u32, (u32, u32)> = BTreeMap::new();
        for r in &rows {
            if r.len() != 3 || r[0] >= dom || r[1] >= dom {
                return bad(format!("malformed row {r:?}"));
            }
            if seen.insert(r[0], (r[1], r[2])).is_some() {
                return bad(format!("child {} displaced twice", r[0]));
            }
        }
        let mut fresh = 0usize;
        for (c, (l, t)) in &seen {
            if c == l {
                return bad(format!("row ({c} {l} {t}) maps a value to itself"));
            }
            if seen.contains_key(l) {
                return bad(format!("leader {l} of {c} is itself displaced"));
            }
            if u.class[*c as usize] != u.class[*l as usize] {
                return bad(format!("{c} and its leader {l} were never unioned"));
            }
            match u.rows.get(c) {
                Some((_, t0, _)) => {
                    if t0 != t {
                        return bad(format!("timestamp of displaced {c} changed from {t0} to {t}"));
                    }
                }
                None => {
                    fresh += 1;
                    if *t != batch_ts {
                        return bad(format!(
                            "{c} was displaced by a batch at timestamp {batch_ts} but carries {t}"
                        ));
                    }
                }
            }
        }
        for c in u.rows.keys() {
            if !seen.contains_key(c) {
                return bad(format!("displaced value {c} disappeared"));
            }
        }
        if fresh != new_unions {
            return bad(format!("{new_unions} effective unions produced {fresh} new rows"));
        }
        // every class has exactly one member that is not displaced
        let mut leaders: BTreeMap<u32, Vec<u32>> = BTreeMap::new();
        for v in 0..dom {
            if !seen.contains_key(&v) {
                leaders.entry(u.class[v as usize]).or_default().push(v);
            }
        }
        for v in 0..dom {
            let cl = u.class[v as usize];
            match leaders.get(&cl).map(|l| l.as_slice()) {
                Some([one]) => {
                    if let Some((l, _)) = seen.get(&v) {
                        if l != one {
                            return bad(format!("leader of {v} is {l}, class leader is {one}"));
                        }
                    }
                }
                other => {
                    return bad(format!("class of {v} has leaders {other:?}"));
                }
            }
        }
        let mut rows_new = BTreeMap::new();
        for (c, (l, t)) in seen {
            let stamp = match u.rows.get(&c) {
                Some((_, _, s)) => *s,
                None => {
                    u.stamp += 1;
                    u.stamp - 1
                }
            };
            rows_new.insert(c, (l, t, stamp));
        }
        u.rows = rows_new;
        Ok(())
    }

    fn ensure_merged(&mut self, shape: &Shape, st: &mut Stats) -> Result<(), Fail> {
        self.flush();
        if self.m.pending() {
            self.merge(shape, st)?;
        }
        Ok(())
    }

    fn stateless(&self, shape: &Shape, keys: &[Vec<u32>]) -> Result<String, Fail> {
        let mut log = String::new();
        self.check_decoys()?;
        if let Some(v) = self.view_t(shape) {
            let e = self.m.t.as_ref().unwrap().expect();
            let len = v.battery(&e, keys)?;
            log.push_str(&format!("t.len={len} t={:?}", e.values().collect::<Vec<_>>()));
        }
        if let Some(v) = self.view_uf() {
            let u = self.m.uf.as_ref().unwrap();
            let e = u.expect();
            let keys: Vec<Vec<u32>> = (0..u.class.len() as u32).map(|k| vec![k]).collect();
            let len = v.battery(&e, &keys)?;
            log.push_str(&format!(" uf.len={len} uf={:?}", e.values().collect::<Vec<_>>()));
        }
        Ok(log)
    }

    /// The decoy tables received exactly the writes of `t`.
    fn check_decoys(&self) -> Result<(), Fail> {
        if self.decoys.is_empty() {
            return Ok(());
        }
        let e = self.m.t.as_ref().unwrap().expect();
        let want = filter(&e, &[]);
        for (i, d) in self.decoys.iter().enumerate() {
            let t = self.db.get_table(*d);
            at("len");
            let len = t.len();
            at("all");
            let all = t.all();
            let got = scan_subset(&self.db, *d, &all);
            if len != e.len() {
                return fail("len-mismatch", format!("decoy {i}: len() = {len}, model has {} rows", e.len()));
            }
            if got != want {
                return fail("scan-mismatch", diff(&format!("decoy {i}: scan(all)"), &got, &want));
            }
        }
        Ok(())
    }

    /// Cheap check used for the side that is not being written to.
    fn light(&self, shape: &Shape, who: &str) -> Result<(), Fail> {
        let mut todo: Vec<(TableId, Rows, &str)> = Vec::new();
        if let Some(id) = self.t_id {
            todo.push((id, self.m.t.as_ref().unwrap().expect(), "t"));
        }
        if let Some(id) = self.uf_id {
            todo.push((id, self.m.uf.as_ref().unwrap().expect(), "uf"));
        }
        for d in &self.decoys {
            todo.push((*d, self.m.t.as_ref().unwrap().expect(), "decoy"));
        }
        let _ = shape;
        for (id, e, n) in todo {
            let t = self.db.get_table(id);
            at("len");
            let len = t.len();
            at("all");
            let all = t.all();
            let got = scan_subset(&self.db, id, &all);
            let want = filter(&e, &[]);
            if len != e.len() || got != want {
                return fail(
                    "clone-leak",
                    diff(&format!("{who} {n}: len {len}, scan(all)"), &got, &want),
                );
            }
        }
        Ok(())
    }
}

// ---------------------------------------------------------------------------
// executing a case
// ---------------------------------------------------------------------------

struct Runner<'a> {
    shape: &'a Shape,
    main: Side,
    snap: Option<Side>,
    log: MatchLog,
    st: Stats,
    keys: Vec<Vec<u32>>,
}

impl Runner<'_> {
    /// Execute one operation on the model and on the real database; returns the
    /// observation line.
    fn step(&mut self, op: &Op) -> Result<String, Fail> {
        let shape = self.shape;
        let mut obs = String::new();
        match op {
            Op::Skip => {
                self.st.skipped += 1;
                obs.push_str("skipped");
            }
            Op::Ins(n) => {
                if shape.uf_only {
                    self.st.skipped += 1;
                } else {
                    let row = shape.make_row(n, self.main.m.ts);
                    if shape.buf_mode == 3 {
                        self.main.stage_exec(false, true, &vals(&row));
                    } else {
                        self.main.stage(shape, false, |b| b.stage_insert(&vals(&row)));
                    }
                    self.main.m.t.as_mut().unwrap().pend_ins.push(row);
                }
            }
            Op::Rem(n) => {
                if shape.uf_only {
                    // DisplacedTable does not support removal (allows_delete = false)
                    self.st.skipped += 1;
                } else {
                    let key = shape.make_key(n);
                    if shape.buf_mode == 3 {
                        self.main.stage_exec(false, false, &vals(&key));
                    } else {
                        self.main.stage(shape, false, |b| b.stage_remove(&vals(&key)));
                    }
                    self.main.m.t.as_mut().unwrap().pend_rem.push(key);
                }
            }
            Op::Union(a, b) => {
                if self.main.uf_id.is_none() {
                    self.st.skipped += 1;
                } else {
                    let (a, b) = (a % shape.dom, b % shape.dom);
                    let ts = self.main.m.ts;
                    if shape.buf_mode == 3 {
                        self.main.stage_exec(true, true, &vals(&[a, b, ts]));
                    } else {
                        self.main
                            .stage(shape, true, |buf| buf.stage_insert(&vals(&[a, b, ts])));
                    }
                    self.main.m.uf.as_mut().unwrap().pend.push((a, b, ts));
                }
            }
            Op::Merge => {
                self.main.merge(shape, &mut self.st)?;
            }
            Op::Tick => {
                // all rows of one batch carry the same timestamp
                self.main.ensure_merged(shape, &mut self.st)?;
                self.main.m.ts += 1;
            }
            Op::Clear => {
                self.main.flush();
                self.st.clears += 1;
                if shape.uf_only {
                    // Whether unions staged before a clear of the union-find table
                    // survive it is not specified (SortedWritesTable documents that
                    // it drops them, DisplacedTable keeps them): merge first so that
                    // the question does not arise.
                    self.main.ensure_merged(shape, &mut self.st)?;
                    let id = self.main.uf_id.unwrap();
                    at("Database::clear_table");
                    self.main.db.clear_table(id);
                    self.main.m.uf.as_mut().unwrap().reset();
                    self.main.uf_mark = None;
                } else {
                    let id = self.main.t_id.unwrap();
                    at("version");
                    let before = self.main.db.get_table(id).version();
                    at("Database::clear_table");
                    self.main.db.clear_table(id);
                    for d in self.main.decoys.clone() {
                        self.main.db.clear_table(d);
                    }
                    at("version");
                    if self.main.db.get_table(id).version().major != before.major {
                        self.st.generation_bumps += 1;
                    }
                    let t = self.main.m.t.as_mut().unwrap();
                    t.rows.clear();
                    t.pend_ins.clear();
                    t.pend_rem.clear();
                    t.phys = 0;
                    t.stale = 0;
                }
            }
            Op::CloneDb => {
                // cloning is only specified for databases without staged data
                self.main.ensure_merged(shape, &mut self.st)?;
                let snap = self.main.snapshot();
                snap.stateless(shape, &self.keys)?;
                self.snap = Some(snap);
                self.st.clones += 1;
            }
            Op::Swap => {
                self.main.flush();
                if let Some(s) = self.snap.take() {
                    let old = std::mem::replace(&mut self.main, s);
                    self.snap = Some(old);
                    self.st.swaps += 1;
                } else {
                    self.st.skipped += 1;
                }
            }
            Op::Rebuild => {
                if shape.rebuild_cols.is_empty() || shape.uf_only {
                    self.st.skipped += 1;
                } else {
                    self.main.ensure_merged(shape, &mut self.st)?;
                    let ts = self.main.m.ts;
                    // model: every row mentioning a displaced value is removed and
                    // re-inserted in canonical form at the current timestamp
                    let u = self.main.m.uf.as_ref().unwrap();
                    let t = self.main.m.t.as_ref().unwrap();
                    let mut rem = Vec::new();
                    let mut ins = Vec::new();
                    for (k, (r, _)) in &t.rows {
                        let mut r2 = r.clone();
                        for c in &shape.rebuild_cols {
                            r2[*c] = u.leader(r[*c]);
                        }
                        if &r2 != r {
                            if let Some(tc) = shape.ts_col {
                                r2[tc] = ts;
                            }
                            rem.push(k.clone());
                            ins.push(r2);
                        }
                    }
                    self.st.rebuilds += 1;
                    self.st.rebuilt_rows += ins.len() as u64;
                    let t = self.main.m.t.as_mut().unwrap();
                    t.pend_rem = rem;
                    t.pend_ins = ins;
                    // real: apply_rebuild stages the same and calls merge_all
                    let (uf, tid) = (self.main.uf_id.unwrap(), self.main.t_id.unwrap());
                    at("version");
                    let before = self.main.db.get_table(tid).version();
                    at("Database::apply_rebuild");
                    self.main.db.apply_rebuild(uf, &[tid], Value::new(ts));
                    at("version");
                    if self.main.db.get_table(tid).version().major != before.major {
                        self.st.generation_bumps += 1;
                    }
                    // model merge (the real merge already happened)
                    let t = self.main.m.t.as_mut().unwrap();
                    for k in std::mem::take(&mut t.pend_rem) {
                        if t.rows.remove(&k).is_some() {
                            t.stale += 1;
                        }
                    }
                    for row in std::mem::take(&mut t.pend_ins) {
                        let key = row[..shape.n_keys].to_vec();
                        match t.rows.get(&key) {
                            None => {
                                t.rows.insert(key, (row, t.stamp));
                                t.stamp += 1;
                                t.phys += 1;
                            }
                            Some((cur, _)) => {
                                self.st.collisions += 1;
                                if let Some(out) = shape.merge_rows(cur, &row) {
                                    t.rows.insert(key, (out, t.stamp));
                                    t.stamp += 1;
                                    t.phys += 1;
                                    t.stale += 1;
                                }
                            }
                        }
                    }
                    if t.stale > std::cmp::max(16, t.phys / 2) {
                        self.st.compactions += 1;
                        t.phys -= t.stale;
                        t.stale = 0;
                    }
                }
            }
            Op::Refresh(ids) => {
                if shape.rebuild_cols.is_empty() || shape.uf_only || ids.is_empty() {
                    self.st.skipped += 1;
                } else {
                    self.main.ensure_merged(shape, &mut self.st)?;
                    let ts = self.main.m.ts;
                    let ids: Vec<u32> = ids.iter().map(|v| v % shape.dom.max(SUM_MOD)).collect();
                    // model: rows mentioning one of the ids in a rebuildable column
                    // are rewritten unchanged except for a fresh timestamp
                    let t = self.main.m.t.as_mut().unwrap();
                    let hit: Vec<Vec<u32>> = t
                        .rows
                        .iter()
                        .filter(|(_, (r, _))| shape.rebuild_cols.iter().any(|c| ids.contains(&r[*c])))
                        .map(|(k, _)| k.clone())
                        .collect();
                    for k in &hit {
                        let (mut r, _) = t.rows.remove(k).unwrap();
                        if let Some(tc) = shape.ts_col {
                            r[tc] = ts;
                        }
                        t.rows.insert(k.clone(), (r, t.stamp));
                        t.stamp += 1;
                        t.phys += 1;
                        t.stale += 1;
                    }
                    self.st.refreshed_rows += hit.len() as u64;
                    if t.stale > std::cmp::max(16, t.phys / 2) {
                        self.st.compactions += 1;
                        t.phys -= t.stale;
                        t.stale = 0;
                    }
                    let tid = self.main.t_id.unwrap();
                    at("version");
                    let before = self.main.db.get_table(tid).version();
                    at("Database::refresh_rows_for_values");
                    self.main
                        .db
                        .refresh_rows_for_values(&[tid], &vals(&ids), Value::new(ts));
                    at("version");
                    if self.main.db.get_table(tid).version().major != before.major {
                        self.st.generation_bumps += 1;
                    }
                }
            }
            Op::Mark => {
                at("version");
                if let Some(id) = self.main.t_id {
                    let v = self.main.db.get_table(id).version();
                    let stamp = self.main.m.t.as_ref().unwrap().stamp;
                    self.main.t_mark = Some((v, stamp));
                }
                if let Some(id) = self.main.uf_id {
                    let v = self.main.db.get_table(id).version();
                    let stamp = self.main.m.uf.as_ref().unwrap().stamp;
                    self.main.uf_mark = Some((v, stamp));
                }
            }
            Op::Since => {
                self.st.reads += 1;
                let mut todo: Vec<(TableId, &(TableVersion, u64), Vec<Vec<u32>>, &str)> = Vec::new();
                if let (Some(id), Some(mark)) = (self.main.t_id, &self.main.t_mark) {
                    let t = self.main.m.t.as_ref().unwrap();
                    let mut want: Vec<Vec<u32>> = t
                        .rows
                        .values()
                        .filter(|(_, s)| *s >= mark.1)
                        .map(|(r, _)| r.clone())
                        .collect();
                    want.sort();
                    todo.push((id, mark, want, "t"));
                }
                if let (Some(id), Some(mark)) = (self.main.uf_id, &self.main.uf_mark) {
                    let u = self.main.m.uf.as_ref().unwrap();
                    let mut want: Vec<Vec<u32>> = u
                        .rows
                        .iter()
                        .filter(|(_, (_, _, s))| *s >= mark.1)
                        .map(|(c, (l, t, _))| vec![*c, *l, *t])
                        .collect();
                    want.sort();
                    todo.push((id, mark, want, "uf"));
                }
                for (id, mark, want, n) in todo {
                    let t = self.main.db.get_table(id);
                    at("version");
                    if t.version().major != mark.0.major {
                        // RowIds and offsets are only valid within a major generation
                        self.st.since_invalidated += 1;
                        obs.push_str(&format!(" {n}.since=invalid"));
                        continue;
                    }
                    at("updates_since");
                    let sub = t.updates_since(mark.0.minor);
                    let got = scan_subset(&self.main.db, id, &sub);
                    if got != want {
                        return fail(
                            "subset-mismatch",
                            diff(&format!("{n}: updates_since(mark)"), &got, &want),
                        );
                    }
                    self.st.since_checked += 1;
                    obs.push_str(&format!(" {n}.since={want:?}"));
                }
            }
            Op::Refine(cs) => {
                self.st.reads += 1;
                let (v, e) = self.main.tut(shape);
                let got = v.constraints(&e, cs)?;
                obs.push_str(&format!("{got:?}"));
            }
            Op::Fast(c) => {
                self.st.reads += 1;
                let (v, e) = self.main.tut(shape);
                match v.fast(&e, c)? {
                    Some(rows) => {
                        self.st.fast_some += 1;
                        obs.push_str(&format!("{rows:?}"));
                    }
                    None => {
                        self.st.fast_none += 1;
                        obs.push_str("unsupported");
                    }
                }
            }
            Op::ScanP { cols, n, cs } => {
                self.st.reads += 1;
                let (v, e) = self.main.tut(shape);
                let got = v.scan_project(&e, cols, *n, cs)?;
                obs.push_str(&format!("{got:?}"));
            }
            Op::Idx(col, val) => {
                self.st.reads += 1;
                self.st.idx_reads += 1;
                let (v, e) = self.main.tut(shape);
                let got = v.index_read(&e, *col, *val)?;
                obs.push_str(&format!("{got:?}"));
            }
            Op::Query { strat, atoms } => {
                // run_rule_set merges staged data itself
                self.main.ensure_merged(shape, &mut self.st)?;
                self.st.reads += 1;
                self.st.queries += 1;
                let (v, e) = self.main.tut(shape);
                let tid = v.id;
                let mut var_ids: BTreeSet<usize> = BTreeSet::new();
                for at_ in atoms {
                    for en in &at_.entries {
                        if let Entry::Var(x) = en {
                            var_ids.insert(*x);
                        }
                    }
                }
                let var_ids: Vec<usize> = var_ids.into_iter().collect();
                let want = eval_query(&e, atoms, &var_ids);
                self.log.lock().unwrap().clear();
                let rec = self.main.rec;
                let db = &mut self.main.db;
                at("RuleSetBuilder");
                let mut rsb = RuleSetBuilder::new(db);
                let mut qb = rsb.new_rule();
                qb.set_plan_strategy(match strat {
                    0 => PlanStrategy::PureSize,
                    1 => PlanStrategy::MinCover,
                    _ => PlanStrategy::Gj,
                });
                let mut vars = BTreeMap::new();
                for x in &var_ids {
                    vars.insert(*x, qb.new_var());
                }
                for at_ in atoms {
                    let entries: Vec<QueryEntry> = at_
                        .entries
                        .iter()
                        .map(|en| match en {
                            Entry::Var(x) => QueryEntry::Var(vars[x]),
                            Entry::Const(c) => QueryEntry::Const(Value::new(*c)),
                        })
                        .collect();
                    let cs: Vec<Constraint> = at_.cs.iter().map(|c| c.real()).collect();
                    at("QueryBuilder::add_atom");
                    if let Err(err) = qb.add_atom(tid, &entries, &cs) {
                        return fail("query-error", format!("add_atom rejected a well-formed atom: {err}"));
                    }
                }
                at("QueryBuilder::build");
                let mut rb = qb.build();
                let args: Vec<QueryEntry> = var_ids.iter().map(|x| QueryEntry::Var(vars[x])).collect();
                at("RuleBuilder::call_external");
                if let Err(err) = rb.call_external(rec, &args) {
                    return fail("query-error", format!("call_external rejected: {err}"));
                }
                at("RuleBuilder::build");
                rb.build();
                let rs = rsb.build();
                at("Database::run_rule_set");
                self.main.db.run_rule_set(&rs, Default::default(), None);
                let mut got = std::mem::take(&mut *self.log.lock().unwrap());
                got.sort();
                if got != want {
                    return fail(
                        "query-mismatch",
                        diff(&format!("query over vars {var_ids:?}"), &got, &want),
                    );
                }
                self.st.query_matches += want.len() as u64;
                obs.push_str(&format!("{} matches {:?}", want.len(), want.iter().take(6).collect::<Vec<_>>()));
            }
        }
        // stateless reads after every operation, on the written side ...
        let l = self.main.stateless(shape, &self.keys)?;
        obs.push(' ');
        obs.push_str(&l);
        // ... and no leak into the other side
        if let Some(s) = &self.snap {
            s.light(shape, "snapshot")?;
        }
        Ok(obs)
    }
}

fn run_case(case: &Case, shape: &Shape, res: &mut CaseResult) {
    let log: MatchLog = Arc::new(Mutex::new(Vec::new()));
    let main = match guarded(|| Side::new(shape, &log)) {
        Ok(s) => s,
        Err(p) => {
            res.violation("panic", format!("while creating the database: {p}"));
            return;
        }
    };
    let mut runner = Runner {
        shape,
        main,
        snap: None,
        log,
        st: Stats::default(),
        keys: shape.all_keys(),
    };
    res.log(&format!("shape {shape:?}"));
    for (i, text) in case.ops.iter().enumerate() {
        let op = parse_op(text, shape);
        at("");
        let r = guarded(|| runner.step(&op));
        match r {
            Ok(Ok(obs)) => {
                res.log(&format!("{text} => {obs}"));
                res.state(runner.main.m.hash());
            }
            Ok(Err(f)) => {
                res.log(&format!("{text} => VIOLATION {}", f.class));
                res.violation(&f.class, format!("op #{i} {text}: {}", f.detail));
                break;
            }
            Err(p) => {
                let site = SITE.with(|s| s.get());
                res.log(&format!("{text} => PANIC"));
                res.violation("panic", format!("op #{i} {text}: panic in {site}: {p}"));
                break;
            }
        }
    }
    let st = &runner.st;
    res.nontrivial = st.collisions >= 1 && st.reads >= 3;
    for (k, v) in [
        ("collisions", st.collisions),
        ("compactions_crossed", st.compactions),
        ("generation_bumps", st.generation_bumps),
        ("clears", st.clears),
        ("clones", st.clones),
        ("swaps", st.swaps),
        ("queries", st.queries),
        ("query_matches", st.query_matches),
        ("explicit_reads", st.reads),
        ("merges", st.merges),
        ("rebuilds", st.rebuilds),
        ("rebuilt_rows", st.rebuilt_rows),
        ("refreshed_rows", st.refreshed_rows),
        ("unions_effective", st.unions_ok),
        ("index_reads", st.idx_reads),
        ("fast_subset_some", st.fast_some),
        ("fast_subset_none", st.fast_none),
        ("since_checked", st.since_checked),
        ("since_invalidated", st.since_invalidated),
        ("ops_skipped", st.skipped),
    ] {
        if v > 0 {
            res.count(k, v);
        }
    }
    if st.compactions > 0 {
        res.count("cases_crossing_compaction", 1);
    }
    if st.max_stale > 16 {
        res.count("cases_stale_gt_16", 1);
    }
    res.count(&format!("shape:keys{}", shape.n_keys), 1);
    res.count(
        &format!(
            "shape:{}",
            if shape.uf_only {
                "displaced"
            } else if shape.ts_col.is_some() {
                "sorted"
            } else {
                "unsorted"
            }
        ),
        1,
    );
    if !shape.uf_only {
        res.count(&format!("shape:merge-{}", shape.merge.name()), 1);
    }
    if shape.par {
        res.count("cases_parallel_paths", 1);
    }
    if shape.pool > 0 {
        res.count("cases_sharded", 1);
    }
    if shape.decoys > 0 {
        res.count("cases_strata_merge", 1);
    }
    // dropping a database that panicked half-way may panic again: contain it
    let Runner { main, snap, .. } = runner;
    let _ = guarded(move || {
        drop(snap);
        drop(main);
    });
}

// ---------------------------------------------------------------------------
// generator
// ---------------------------------------------------------------------------

struct OpGen<'a> {
    r: Rng,
    shape: &'a Shape,
    ts: u32,
    uf_clear: bool,
}

impl OpGen<'_> {
    fn val(&mut self) -> u32 {
        self.r.below(self.shape.dom as usize) as u32
    }
    fn con(&mut self) -> String {
        let sh = self.shape;
        let col = if sh.ts_col.is_some() && self.r.chance(2, 5) {
            sh.ts_col.unwrap()
        } else {
            self.r.below(sh.arity)
        };
        let v = if Some(col) == sh.ts_col {
            self.r.below(self.ts as usize + 2) as u32
        } else {
            self.r.below(sh.dom as usize + 1) as u32
        };
        match self.r.below(7) {
            0 => format!("(eq {col} {})", self.r.below(sh.arity)),
            1 | 2 => format!("(eqc {col} {v})"),
            3 => format!("(lt {col} {v})"),
            4 => format!("(le {col} {v})"),
            5 => format!("(gt {col} {v})"),
            _ => format!("(ge {col} {v})"),
        }
    }
    fn cons(&mut self, max: usize) -> String {
        let n = if self.r.chance(1, 2) { 0 } else { self.r.below(max + 1) };
        let v: Vec<String> = (0..n).map(|_| self.con()).collect();
        format!("({})", v.join(" "))
    }
    fn ins(&mut self) -> String {
        let sh = self.shape;
        let n = sh.n_keys + sh.val_cols.len();
        let v: Vec<String> = (0..n).map(|_| self.val().to_string()).collect();
        if v.is_empty() {
            "(ins)".to_string()
        } else {
            format!("(ins {})", v.join(" "))
        }
    }
    fn rem(&mut self) -> String {
        let v: Vec<String> = (0..self.shape.n_keys).map(|_| self.val().to_string()).collect();
        if v.is_empty() {
            "(rem)".to_string()
        } else {
            format!("(rem {})", v.join(" "))
        }
    }
    fn union(&mut self) -> String {
        format!("(union {} {})", self.val(), self.val())
    }
    fn query(&mut self) -> String {
        let sh = self.shape;
        let n_atoms = 1 + self.r.weighted(&[5, 5, 1]);
        let strat = *self.r.pick(&["ps", "mc", "gj"]);
        let mut next_var = 0usize;
        let mut atoms = Vec::new();
        for _ in 0..n_atoms {
            let mut es = Vec::new();
            // every atom carries at least one variable (see parse_op)
            let must_var = self.r.below(sh.arity);
            for c in 0..sh.arity {
                match self.r.below(10) {
                    0 if c != must_var => es.push(self.val().to_string()),
                    1..=4 if next_var > 0 => es.push(format!("x{}", self.r.below(next_var))),
                    _ => {
                        es.push(format!("x{next_var}"));
                        next_var += 1;
                    }
                }
            }
            let cs = self.cons(2);
            atoms.push(format!("(a ({}) {cs})", es.join(" ")));
        }
        format!("(q {strat} ({}))", atoms.join(" "))
    }
    fn read(&mut self) -> String {
        let sh = self.shape;
        match self.r.weighted(&[6, 3, 3, 5, 6, 3]) {
            0 => format!("(refine {})", {
                let n = 1 + self.r.below(3);
                let v: Vec<String> = (0..n).map(|_| self.con()).collect();
                format!("({})", v.join(" "))
            }),
            1 => format!("(fast {})", self.con()),
            2 => {
                let n = 1 + self.r.below(3);
                let cols: Vec<String> = (0..n).map(|_| self.r.below(sh.arity).to_string()).collect();
                format!("(scanp ({}) {} {})", cols.join(" "), 1 + self.r.below(6), self.cons(2))
            }
            3 => {
                let col = self.r.below(sh.arity);
                let v = if Some(col) == sh.ts_col {
                    self.r.below(self.ts as usize + 2) as u32
                } else {
                    self.val()
                };
                format!("(idx {col} {v})")
            }
            4 => self.query(),
            _ => "(since)".to_string(),
        }
    }
}

fn gen_ops(root: &Rng, shape: &Shape, uf_clear: bool) -> Vec<String> {
    let mut g = OpGen {
        r: root.fork("ops"),
        shape,
        ts: 0,
        uf_clear,
    };
    let target = if g.r.chance(1, 4) {
        g.r.range(5, 30) as usize
    } else {
        g.r.range(40, 120) as usize
    };
    // profile: how removal/overwrite heavy the writes are, how chatty the reads
    let churn = g.r.chance(1, 2);
    let reads_per_round = g.r.below(3);
    let hot: Vec<String> = (0..(2 + g.r.below(3))).map(|_| g.ins()).collect();
    let mut ops: Vec<String> = Vec::new();
    while ops.len() < target {
        // a batch of staged writes
        let n = 1 + g.r.below(if churn { 8 } else { 5 });
        for _ in 0..n {
            if shape.uf_only {
                ops.push(g.union());
                continue;
            }
            let w = if churn { [5, 4, 3, 1] } else { [7, 2, 1, 1] };
            match g.r.weighted(&w) {
                0 => ops.push(g.ins()),
                1 => ops.push(g.rem()),
                2 => {
                    // rewrite a hot key: same key, fresh values
                    let base = g.r.pick(&hot).clone();
                    if let Ok(Sexp::List(mut v)) = sexp::parse(&base) {
                        for x in v.iter_mut().skip(1 + shape.n_keys) {
                            *x = Sexp::int(g.val() as i64);
                        }
                        ops.push(Sexp::List(v).to_string());
                    }
                }
                _ => {
                    if shape.has_uf() {
                        ops.push(g.union());
                    } else {
                        ops.push(g.ins());
                    }
                }
            }
        }
        if g.r.chance(9, 10) {
            ops.push("(merge)".to_string());
        }
        if g.r.chance(1, 3) {
            ops.push("(tick)".to_string());
            g.ts += 1;
        }
        for _ in 0..g.r.below(reads_per_round + 2) {
            ops.push(g.read());
        }
        match g.r.below(40) {
            0 | 1 => {
                if !shape.uf_only || g.uf_clear {
                    ops.push("(clear)".to_string());
                }
            }
            2 | 3 => {
                ops.push("(clone)".to_string());
                // writes staged on one side, a merge on the other side in between
                // (Database::clone shares the change-notification list: open defect,
                // kept rare so that it does not end the batch early)
                if g.r.chance(1, 600) {
                    let w = if shape.uf_only { g.union() } else { g.ins() };
                    ops.push(w);
                    ops.push("(swap)".to_string());
                    let w = if shape.uf_only { g.union() } else { g.ins() };
                    ops.push(w);
                    ops.push("(merge)".to_string());
                    ops.push("(swap)".to_string());
                    ops.push("(merge)".to_string());
                }
            }
            4 | 5 => ops.push("(swap)".to_string()),
            6..=8 => ops.push("(mark)".to_string()),
            9..=12 => {
                if !shape.rebuild_cols.is_empty() {
                    ops.push("(rebuild)".to_string());
                }
            }
            13 | 14 => {
                if !shape.rebuild_cols.is_empty() {
                    ops.push(format!("(refresh {} {})", g.val(), g.val()));
                }
            }
            _ => {}
        }
    }
    ops.truncate(120);
    ops
}

impl Property for C16 {
    fn id(&self) -> &'static str {
        "C16"
    }
    fn level(&self) -> &'static str {
        "exploration"
    }
    fn technique(&self) -> &'static str {
        "model-based deterministic simulation: seeded operation sequences on Database/SortedWritesTable/DisplacedTable in lock-step with a BTreeMap reference model, every read path compared after every operation"
    }
    fn rule(&self) -> &'static str {
        "case = table shape (0..4 key columns, 0..2 value columns, optional sort column first/last, merge function new/newalways/old/min/sum, optional value-level rebuild columns, or the DisplacedTable itself) + 5..120 explicit operations (staged inserts/removals/unions, merge_all, timestamp ticks, clear_table, Database::clone + swap, apply_rebuild, marks, constrained reads, cached column-index reads, 1..3-atom rule-set queries) over a key domain of 2..8 values per column; after every operation len, get_row over the whole key domain, scan/scan_bounded/scan_generic, refine_one and fast_subset for a fixed constraint set are compared with the model, explicit read operations compare refine/refine_ref/split_fast_slow/scan_project/fast_subset/updates_since/for_each_matching_col/run_rule_set. Non-trivial = at least one merge hit an existing key and at least 3 explicit reads; distinct states = hashes of model contents (rows + staged data)."
    }
    fn assumptions(&self) -> Vec<String> {
        vec![
            "within one merge batch removals are applied before inserts (Table::merge = do_delete; do_insert), rows of one batch for the same key are merged in staging order".into(),
            "all rows staged between two merges carry the same sort-column value and timestamps never decrease (asserted by the tables: 'inserting row that violates sort order'); (tick) merges first".into(),
            "rows staged but not merged are invisible (the map holds merged rows only)".into(),
            "Database::clone, run_rule_set and apply_rebuild are only exercised with nothing staged (the operation merges first)".into(),
            "which member of a union-find class becomes the leader is internal to DisplacedTable: rows are validated against the modelled partition (one non-displaced leader per class, stable displacement timestamps) and then adopted".into(),
            "with rebuild columns only order-free merge functions (min, sum) are generated: the arrival order of colliding rebuilt rows is physical row order, which is unspecified".into(),
            "subset sizes and the physical order of scans are not compared (size may over-approximate; scans are compared as sorted multisets)".into(),
            "get_row_column on the leader column of a DisplacedTable answers from the union-find even for absent keys (by design); it is compared on the timestamp column".into(),
"the parallel table / index / rebuild paths are reached in a sub-batch (1 in 40) that runs in a fresh process with EGGLOG_PARALLEL_*_CUTOFF=0 and an installed thread pool; there the merge function 'new' is replaced by 'min' (batch pre-merging is observable for non-associative merge functions)".into(),
        ]
    }
    fn budget(&self, tier: Tier) -> Budget {
        match tier {
            Tier::Quick => Budget { cases: 40_000, wall_s: 60 },
            Tier::Thorough => Budget { cases: 1_500_000, wall_s: 900 },
        }
    }
    fn isolation(&self, case: &Case) -> Isolation {
        if has_env(case) { Isolation::Fresh } else { Isolation::Shared }
    }
    fn timeout_s(&self) -> u64 {
        60
    }
    fn generate(&self, seed: u64, _index: u64, _tier: Tier) -> Case {
        let mut case = Case::new("C16", seed);
        let root = Rng::new(seed);
        let mut r = root.fork("shape");
        let displaced = r.chance(1, 7);
        let mut uf_clear = false;
        if displaced {
            case.cfg.insert("kind".into(), json!("displaced"));
            case.cfg.insert("dom".into(), json!(r.range(3, 9)));
            // DisplacedTable::clear is a known open defect (stale lookup_table):
            // keep it reachable but rare so that it does not drown everything else
            uf_clear = r.chance(1, 120);
        } else {
            case.cfg.insert("kind".into(), json!("sorted"));
            let n_keys = r.weighted(&[1, 4, 5, 3, 2]);
            let n_vals = if n_keys == 0 { 1 + r.below(2) } else { r.weighted(&[2, 5, 3]) };
            let sort = *r.pick(&["none", "last", "last", "first"]);
            case.cfg.insert("n_keys".into(), json!(n_keys));
            case.cfg.insert("n_vals".into(), json!(n_vals));
            case.cfg.insert("sort".into(), json!(sort));
            let dom = match n_keys {
                0 | 1 => r.range(3, 6),
                2 => r.range(2, 5),
                3 => r.range(2, 4),
                _ => r.range(2, 3),
            };
            case.cfg.insert("dom".into(), json!(dom));
            let rebuild = n_keys + n_vals > 0 && r.chance(1, 4);
            if rebuild {
                let arity = n_keys + n_vals;
                // logical (non-timestamp) column -> physical column
                let phys = |c: usize| if sort == "first" && c >= n_keys { c + 1 } else { c };
                let mut cols: Vec<usize> = (0..arity).filter(|_| r.chance(2, 3)).map(phys).collect();
                if cols.is_empty() {
                    cols.push(phys(r.below(arity)));
                }
                case.cfg.insert("rebuild".into(), json!(cols));
                case.cfg.insert("merge".into(), json!(*r.pick(&["min", "sum"])));
            } else {
                case.cfg.insert(
                    "merge".into(),
                    json!(*r.pick(&["new", "new", "newalways", "old", "min", "sum"])),
                );
            }
        }
        if !displaced && !case.cfg.contains_key("rebuild") && r.chance(1, 8) {
            case.cfg.insert("decoys".into(), json!(3 + r.below(2)));
        }
        case.cfg.insert("buf".into(), json!(r.below(4)));
        case.cfg.insert("pool".into(), json!(if r.chance(1, 10) { 2 + r.below(3) } else { 0 }));
        if r.chance(1, 64) {
            // parallel table / index / rebuild paths: the cut-offs are read once
            // per process, so these cases run in a fresh worker process
            let env: serde_json::Map<String, serde_json::Value> =
                PAR_ENV.iter().map(|k| (k.to_string(), json!("0"))).collect();
            case.cfg.insert("env".into(), json!(env));
            case.cfg.insert("pool".into(), json!(2 + r.below(3)));
            // NB: with merge = "sum" this sub-batch is what catches a parallel_insert
            // that stores the incoming row instead of the merge function's output
            // (found by this property, fixed in /repo by 18cb849).
        }
        let shape = Shape::from_case(&case);
        case.ops = gen_ops(&root, &shape, uf_clear);
        case
    }
    fn check(&self, case: &Case) -> CaseResult {
        let mut res = CaseResult::new();
        let shape = Shape::from_case(case);
        if shape.pool > 0 {
            let pool = egglog_concurrency::ThreadPool::new(shape.pool);
            pool.install(|| run_case(case, &shape, &mut res));
        } else {
            run_case(case, &shape, &mut res);
        }
        // reach probes of the verif-hooks build (parallel_insert, index_merge_parallel, ...)
        super::common::record_probes(&mut res);
        res
    }
}
