//! C06 — results do not depend on the number of threads. Each program runs
//! once serially (reference) and then with 2..8 threads under the token
//! scheduler, several schedules per program, all parallel cut-offs drawn near 0.

use super::common::*;
use super::{Budget, Isolation, Property, Tier};
use crate::case::{Case, CaseResult};
use crate::exec::{Engine, Mode};
use crate::rng::Rng;
use crate::wgen::{Features, Gen, to_text};

pub struct C06;

pub struct StepObs {
    pub step: String,
    pub outcome: String,
    pub dump: Option<crate::dump::Dump>,
}

/// Run `ops` on one engine, observing outcome and dump after every step.
pub fn observe(e: &mut Engine, ops: &[String], unroll: bool) -> Vec<StepObs> {
    let mut v = Vec::new();
    for op in ops {
        let steps = if unroll { unroll_run(op) } else { vec![op.clone()] };
        for step in steps {
            let o = e.run(&step);
            let panicked = o.is_panic();
            let dump = e.dump().ok().map(|x| x.1);
            v.push(StepObs {
                step,
                outcome: normalized(&o),
                dump,
            });
            if panicked {
                return v;
            }
        }
    }
    v
}

impl Property for C06 {
    fn id(&self) -> &'static str {
        "C06"
    }
    fn level(&self) -> &'static str {
        "exploration"
    }
    fn technique(&self) -> &'static str {
        "deterministic simulation: the real engine with 2-8 pool workers under the seeded token scheduler, parallel cut-offs and algorithm thresholds drawn per run; differential oracle against the single-threaded run"
    }
    fn rule(&self) -> &'static str {
        "case = (seeded monotone program, thread count 2..8, parallel cut-offs in {0,1,3,16,default}, fork depth, action batch size, scheduler policy and seed); the program is first run with one thread, then under the token scheduler; per-command outcomes (check results, updated flags, sizes, extraction costs) and id-free dumps are compared after every command. Several schedules per program (group). Non-trivial = the threaded run made >= 20 scheduling decisions and some iteration updated the database; distinct = distinct (program, configuration, schedule trace)."
    }
    fn assumptions(&self) -> Vec<String> {
        vec![
            "results that legitimately depend on the numeric order of e-class ids are not generated (ordering-min/max on eq-sorts, set-get, colliding Map keys)".into(),
            "threads are descheduled only at hook sites; contention inside uninstrumented primitives (DashMap shard locks, SegQueue) is never produced (DESIGN §8b)".into(),
            "F4 faults are not armed: the set of actions applied before a panic legitimately depends on the schedule".into(),
        ]
    }
    fn real_vs_stub(&self) -> &'static str {
        "real: all egglog crates, crossbeam, dashmap, arc-swap; substituted: who runs next and the blocking waits of the pool (poll-and-yield variants)"
    }
    fn budget(&self, tier: Tier) -> Budget {
        match tier {
            Tier::Quick => Budget { cases: 1600, wall_s: 150 },
            Tier::Thorough => Budget { cases: 64_000, wall_s: 2400 },
        }
    }
    fn group(&self) -> u64 {
        4
    }
    fn isolation(&self, _case: &Case) -> Isolation {
        Isolation::Fresh
    }
    fn generate(&self, seed: u64, index: u64, _tier: Tier) -> Case {
        let mut case = Case::new("C06", seed);
        let root = Rng::new(seed);
        let mut cfg_rng = root.fork("cfg");
        let mut f = Features::draw(&mut cfg_rng);
        f.subsume = cfg_rng.chance(1, 4);
        f.containers = cfg_rng.chance(1, 3);
        f.nested_containers = f.containers && cfg_rng.chance(1, 3);
        f.pushpop = cfg_rng.chance(1, 8);
        f.facts_heavy = cfg_rng.chance(1, 2);
        let mut g = Gen::new(root.fork("workload"), f);
        let mut ops = g.gen_decls();
        ops.extend(g.gen_session());
        case.ops = to_text(&ops);
        // the schedule / configuration differs per member of the group
        let mut srng = Rng::new(seed ^ index.wrapping_mul(0x9E37_79B9_7F4A_7C15)).fork("sched");
        draw_threaded(&mut case, &mut srng);
        draw_knobs(&mut case, &mut srng);
        case
    }
    fn check(&self, case: &Case) -> CaseResult {
        let mut res = CaseResult::new();
        let threads = case.threads() as usize;
        apply_knobs(case);
        // reference: one thread, no scheduler
        let mut reference = Engine::new(Mode::Plain, 1);
        let ref_obs = observe(&mut reference, &case.ops, false);
        drop(reference);
        let mut thr_obs = Vec::new();
        maybe_sim(case, &mut res, |_res| {
            let mut e = Engine::new(Mode::Plain, threads);
            thr_obs = observe(&mut e, &case.ops, false);
            drop(e);
        });
        let mut updated = false;
        for (i, (a, b)) in ref_obs.iter().zip(thr_obs.iter()).enumerate() {
            res.log(&format!("{} => {}", a.step, a.outcome));
            if a.outcome.contains("updated=true") {
                updated = true;
            }
            if a.outcome != b.outcome {
                if a.outcome.starts_with("panic") && b.outcome.starts_with("panic") {
                    res.inconclusive("panic in both runs");
                    break;
                }
                res.violation(
                    "outcome-mismatch",
                    format!("step {i} {}: 1 thread={} {} threads={}", a.step, a.outcome, threads, b.outcome),
                );
                break;
            }
            match (&a.dump, &b.dump) {
                (Some(da), Some(db)) => {
                    res.count("dumps_compared", 1);
                    if da.orphans > 0 || db.orphans > 0 {
                        res.count("inconclusive_orphan_steps", 1);
                        continue;
                    }
                    res.state(da.hash());
                    if da.lines != db.lines {
                        res.violation(
                            "dump-mismatch",
                            format!("after step {i} {}: {}", a.step, da.first_diff(db)),
                        );
                        break;
                    }
                }
                _ => {
                    res.violation("dump-panic", format!("after step {i} {}", a.step));
                    break;
                }
            }
        }
        if !res.is_violation() && ref_obs.len() != thr_obs.len() {
            res.violation(
                "outcome-mismatch",
                format!("serial run observed {} steps, threaded {}", ref_obs.len(), thr_obs.len()),
            );
        }
        res.nontrivial = updated && res.counters.get("sched_decisions").copied().unwrap_or(0) >= 20;
        res
    }
}
