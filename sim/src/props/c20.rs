//! C20 — single-threaded runs are reproducible bit for bit: the same program
//! executed repeatedly, in one process and in child processes under
//! environment perturbations (CPU affinity, ASLR, environment size, cwd, stack
//! size), must give byte-identical transcripts.

use super::{Budget, Property, Tier};
use crate::case::{Case, CaseResult};
use crate::rng::Rng;
use crate::wgen::{Features, Gen, to_text};
use egglog::{CommandOutput, EGraph};
use serde_json::json;
use std::io::Write;
use std::process::{Command, Stdio};

pub struct C20;

fn report_text(r: &egglog_reports::RunReport) -> String {
    let mut s = format!("updated={} can_stop={} iterations={}", r.updated, r.can_stop, r.iterations.len());
    for (i, it) in r.iterations.iter().enumerate() {
        let mut rules: Vec<(String, Vec<usize>)> = it
            .rule_set_report
            .rule_reports
            .iter()
            .map(|(k, v)| (k.to_string(), v.iter().map(|x| x.num_matches).collect()))
            .collect();
        rules.sort();
        s.push_str(&format!(" | it{i} changed={} {:?}", it.rule_set_report.changed, rules));
    }
    let mut m: Vec<(String, usize)> = r.num_matches_per_rule.iter().map(|(k, v)| (k.to_string(), *v)).collect();
    m.sort();
    s.push_str(&format!(" | matches={m:?}"));
    s
}

/// Full-fidelity transcript of a program on a fresh single-threaded engine.
pub fn transcript(ops: &[String]) -> String {
    let mut eg = EGraph::default();
    let mut out = String::new();
    for op in ops {
        let r = crate::exec::guarded(|| eg.parse_and_run_program(None, op));
        match r {
            Ok(Ok(outs)) => {
                for o in outs {
                    match &o {
                        CommandOutput::RunSchedule(rep) => out.push_str(&format!("RUN {}\n", report_text(rep))),
                        CommandOutput::OverallStatistics(rep) => out.push_str(&format!("STATS {}\n", report_text(rep))),
                        other => out.push_str(&format!("OUT {other}")),
                    }
                }
                out.push_str("OK\n");
            }
            Ok(Err(e)) => out.push_str(&format!("ERR {e}\n")),
            Err(p) => {
                out.push_str(&format!("PANIC {p}\n"));
                break;
            }
        }
        if eg.num_tuples() > 5000 {
            out.push_str("SIZE-BOUND\n");
            break;
        }
    }
    out.push_str(&format!("FINAL {}\n", report_text(eg.get_overall_run_report())));
    out
}

fn child(ops: &[String], variant: &str) -> Result<String, String> {
    let exe = std::env::current_exe().map_err(|e| e.to_string())?;
    let exe_s = exe.to_string_lossy().to_string();
    let mut cmd = match variant {
        "cpus16" => {
            let mut c = Command::new("taskset");
            c.arg("-c").arg("0-15").arg(&exe_s).arg("transcript");
            c
        }
        "cpus2" => {
            let mut c = Command::new("taskset");
            c.arg("-c").arg("0-1").arg(&exe_s).arg("transcript");
            c
        }
        "noaslr" => {
            let mut c = Command::new("setarch");
            c.arg("x86_64").arg("-R").arg(&exe_s).arg("transcript");
            c
        }
        "bigenv" => {
            let mut c = Command::new(&exe_s);
            c.arg("transcript");
            for i in 0..200 {
                c.env(format!("EGSIM_PAD_{i}"), "x".repeat(i % 37 + 1));
            }
            c
        }
        "cwd" => {
            let mut c = Command::new(&exe_s);
            c.arg("transcript").current_dir("/");
            c
        }
        "stack" => {
            let mut c = Command::new("bash");
            c.arg("-c").arg(format!("ulimit -s 7936; exec {exe_s} transcript"));
            c
        }
        _ => {
            let mut c = Command::new(&exe_s);
            c.arg("transcript");
            c
        }
    };
    cmd.stdin(Stdio::piped()).stdout(Stdio::piped()).stderr(Stdio::null());
    let mut ch = cmd.spawn().map_err(|e| format!("spawn {variant}: {e}"))?;
    {
        let mut stdin = ch.stdin.take().unwrap();
        stdin.write_all(json!(ops).to_string().as_bytes()).map_err(|e| e.to_string())?;
    }
    let out = ch.wait_with_output().map_err(|e| e.to_string())?;
    if !out.status.success() {
        return Err(format!("{variant}: child exited with {:?}", out.status));
    }
    Ok(String::from_utf8_lossy(&out.stdout).to_string())
}

fn first_diff(a: &str, b: &str) -> String {
    for (i, (x, y)) in a.lines().zip(b.lines()).enumerate() {
        if x != y {
            return format!("line {i}: {:?} vs {:?}", x.chars().take(200).collect::<String>(), y.chars().take(200).collect::<String>());
        }
    }
    format!("lengths {} vs {}", a.lines().count(), b.lines().count())
}

impl Property for C20 {
    fn id(&self) -> &'static str {
        "C20"
    }
    fn level(&self) -> &'static str {
        "fault_enumeration"
    }
    fn technique(&self) -> &'static str {
        "deterministic simulation with environment fault injection: each program is executed repeatedly in one process and in child processes under perturbations of CPU affinity (DashMap shard count), ASLR (hash seeds), environment size, working directory and stack limit; transcripts are compared byte for byte"
    }
    fn rule(&self) -> &'static str {
        "case = a seeded program (declarations, rules, writes, runs, checks, extract, extract variants, print-size, print-function, containers, push/pop) or an .egg file from /repo/tests that needs no external facts; a third of the seeded programs end with 2-15 rows over Vec/Set/MultiSet values that a union rebuilds in place, followed by print-function; executed six times in this process and once in each perturbed child: affinity 16 CPUs vs the worker's single CPU, 2 CPUs, ASLR off (setarch -R), 200 extra environment variables, cwd=/, 256 KiB less stack. The transcript holds every command output verbatim (extracted terms, printed tables in order, sizes, error texts) and every run report with durations dropped (updated, can_stop, per-iteration changed flag and per-rule match counts, sorted by rule name). All transcripts must be identical. Because the subject is reproducibility itself, a replay of a violation must reproduce the class; the differing line may vary. Non-trivial = the transcript has >= 3 output lines and some run updated the database; distinct = distinct programs."
    }
    fn assumptions(&self) -> Vec<String> {
        vec![
            "Read::tables()/table_sizes() iteration order and RunReport's Display ordering by measured time are outside the statement (command outputs and run reports apart from timings) and are not compared".into(),
        ]
    }
    fn real_vs_stub(&self) -> &'static str {
        "real: the whole engine in separate OS processes; nothing is stubbed; the fault is the process environment"
    }
    fn budget(&self, tier: Tier) -> Budget {
        match tier {
            Tier::Quick => Budget { cases: 1500, wall_s: 120 },
            Tier::Thorough => Budget { cases: 40_000, wall_s: 1800 },
        }
    }
    fn timeout_s(&self) -> u64 {
        90
    }
    fn generate(&self, seed: u64, index: u64, _tier: Tier) -> Case {
        let mut case = Case::new("C20", seed);
        let root = Rng::new(seed);
        let mut cfg_rng = root.fork("cfg");
        if index % 5 == 4 {
            // a test file of the repository
            let mut files: Vec<std::path::PathBuf> = std::fs::read_dir("/repo/tests")
                .map(|d| d.filter_map(|e| e.ok().map(|e| e.path())).filter(|p| p.extension().map(|x| x == "egg").unwrap_or(false)).collect())
                .unwrap_or_default();
            files.sort();
            let usable: Vec<(std::path::PathBuf, String)> = files
                .into_iter()
                .filter_map(|p| std::fs::read_to_string(&p).ok().map(|t| (p, t)))
                .filter(|(_, t)| t.len() < 6000 && !t.contains("(input") && !t.contains("(include") && !t.contains("(output"))
                .collect();
            if !usable.is_empty() {
                let (p, t) = &usable[cfg_rng.below(usable.len())];
                if let Ok(cmds) = crate::sexp::parse_all(t) {
                    case.ops = cmds.iter().map(|c| c.to_string()).collect();
                    case.cfg.insert("file".into(), json!(p.to_string_lossy()));
                    return case;
                }
            }
        }
        let mut f = Features::draw(&mut cfg_rng);
        f.prints = true;
        f.extract = true;
        f.containers = cfg_rng.chance(1, 2);
        f.nested_containers = f.containers && cfg_rng.chance(1, 3);
        f.subsume = cfg_rng.chance(1, 3);
        f.pushpop = cfg_rng.chance(1, 4);
        f.costs = true;
        f.facts_heavy = cfg_rng.chance(1, 2);
        let mut g = Gen::new(root.fork("workload"), f);
        let mut ops = to_text(&g.gen_decls());
        ops.extend(to_text(&g.gen_session()));
        for _ in 0..2 {
            ops.push(g.gen_print().to_string());
            ops.push(g.gen_extract().to_string());
        }
        if cfg_rng.chance(1, 3) {
            // rows over containers that are rebuilt in place (contents change, id stays):
            // the rebuild re-inserts the rows that mention them, and the order in which it
            // does so becomes the physical row order that print-function shows
            let mut t = root.fork("inplace");
            let (sort, mk): (&str, fn(&str, &str) -> String) = match t.below(4) {
                0 => ("Vec", |a, b| format!("(vec-of {a} {b})")),
                1 => ("Set", |a, b| format!("(set-of {a} {b})")),
                2 => ("MultiSet", |a, b| format!("(multiset-of {a} {b})")),
                _ => ("Vec", |a, b| format!("(vec-of {b} {a} {b})")),
            };
            ops.push("(datatype M20__ (N20__ i64) (V20__) (Z20__))".into());
            ops.push(format!("(sort C20__ ({sort} M20__))"));
            let as_fn = t.chance(1, 2);
            if as_fn {
                ops.push("(function H20__ (i64 C20__) i64 :merge (min old new))".into());
            } else {
                ops.push("(relation H20__ (i64 C20__))".into());
            }
            if t.chance(1, 2) {
                ops.push("(Z20__)".into());
                ops.push("(V20__)".into());
            } else {
                ops.push("(V20__)".into());
                ops.push("(Z20__)".into());
            }
            let n = 2 + t.below(14);
            for i in 0..n {
                let c = mk(&format!("(N20__ {i})"), "(V20__)");
                ops.push(if as_fn { format!("(set (H20__ {i} {c}) {i})") } else { format!("(H20__ {i} {c})") });
            }
            ops.push("(union (V20__) (Z20__))".into());
            if t.chance(1, 2) {
                ops.push(g.gen_run().to_string());
            }
            ops.push("(print-function H20__ 100)".into());
        }
        ops.push("(print-size)".into());
        ops.push("(print-stats)".into());
        case.ops = ops;
        case
    }
    fn violation_is_nondeterminism(&self) -> bool {
        true
    }
    fn check(&self, case: &Case) -> CaseResult {
        let mut res = CaseResult::new();
        let t1 = transcript(&case.ops);
        let t2 = transcript(&case.ops);
        res.log(&t1);
        res.state(crate::rng::hash_str(&t1));
        if t1 != t2 {
            res.violation("same-process-differs", first_diff(&t1, &t2));
            return res;
        }
        // a few more repetitions: an order drawn at random per run coincides by chance
        // with probability 1/k! for k affected rows
        for _ in 0..4 {
            let t = transcript(&case.ops);
            if t != t1 {
                res.violation("same-process-differs", first_diff(&t1, &t));
                return res;
            }
        }
        if t1.contains("SIZE-BOUND") {
            res.inconclusive("size bound");
            return res;
        }
        for variant in ["plain", "cpus16", "cpus2", "noaslr", "bigenv", "cwd", "stack"] {
            match child(&case.ops, variant) {
                Ok(t) => {
                    res.count(&format!("fault:env_{variant}"), 1);
                    if t != t1 {
                        res.violation(&format!("differs-under-{variant}"), first_diff(&t1, &t));
                        return res;
                    }
                }
                Err(e) => {
                    res.verdict = crate::case::Verdict::HarnessError(e);
                    return res;
                }
            }
        }
        res.nontrivial = t1.lines().filter(|l| l.starts_with("OUT")).count() >= 3 && t1.contains("updated=true");
        res
    }
}
