//! C04 — the database is canonical and consistent after every command,
//! including commands that fail at run time. `I(E)` is evaluated after every
//! single operation of histories biased to the error paths.

use super::common::*;
use super::{Budget, Property, Tier};
use crate::case::{Case, CaseResult};
use crate::dump::RVal;
use crate::exec::{Engine, Mode, Outcome};
use crate::faults;
use crate::rng::Rng;
use crate::wgen::{Features, Gen, to_text};
use serde_json::json;

pub struct C04;

/// Render a constructor row as egglog terms `(row-term, class-term)` when both
/// are expressible in surface syntax (no containers other than vec/set/multiset).
fn surface(v: &RVal, names: &std::collections::HashMap<(String, u64), String>) -> Option<String> {
    Some(match v {
        RVal::I(i) => i.to_string(),
        RVal::B(b) => b.to_string(),
        RVal::S(s) => format!("{s:?}"),
        RVal::Class(s, n) => names.get(&(s.clone(), *n))?.clone(),
        RVal::Vec(xs) if !xs.is_empty() => format!(
            "(vec-of {})",
            xs.iter().map(|x| surface(x, names)).collect::<Option<Vec<_>>>()?.join(" ")
        ),
        RVal::Set(xs) if !xs.is_empty() => format!(
            "(set-of {})",
            xs.iter().map(|x| surface(x, names)).collect::<Option<Vec<_>>>()?.join(" ")
        ),
        _ => return None,
    })
}

/// Pairs of terms the engine itself records as equal (same class in the
/// dump): the very next `(check (= a b))` must succeed.
pub fn recorded_equalities(raw: &crate::dump::RawDb, max: usize, rng: &mut Rng) -> Vec<(String, String)> {
    // least-size naming restricted to surface syntax
    let mut names: std::collections::HashMap<(String, u64), (usize, String)> = Default::default();
    loop {
        let mut changed = false;
        for t in raw.tables.iter().filter(|t| t.is_ctor && !t.is_let) {
            for r in &t.rows {
                let RVal::Class(s, n) = &r.out else { continue };
                let plain: std::collections::HashMap<(String, u64), String> =
                    names.iter().map(|(k, v)| (k.clone(), v.1.clone())).collect();
                let Some(args) = r.args.iter().map(|a| surface(a, &plain)).collect::<Option<Vec<_>>>() else {
                    continue;
                };
                let txt = if args.is_empty() { format!("({})", t.name) } else { format!("({} {})", t.name, args.join(" ")) };
                let cand = (txt.len(), txt);
                let key = (s.clone(), *n);
                match names.get(&key) {
                    Some(cur) if *cur <= cand => {}
                    _ => {
                        names.insert(key, cand);
                        changed = true;
                    }
                }
            }
        }
        if !changed {
            break;
        }
    }
    let plain: std::collections::HashMap<(String, u64), String> =
        names.iter().map(|(k, v)| (k.clone(), v.1.clone())).collect();
    let mut pairs = Vec::new();
    for t in raw.tables.iter().filter(|t| t.is_ctor && !t.is_let) {
        for r in &t.rows {
            let RVal::Class(s, n) = &r.out else { continue };
            let Some(rep) = plain.get(&(s.clone(), *n)) else { continue };
            let Some(args) = r.args.iter().map(|a| surface(a, &plain)).collect::<Option<Vec<_>>>() else {
                continue;
            };
            let txt = if args.is_empty() { format!("({})", t.name) } else { format!("({} {})", t.name, args.join(" ")) };
            if &txt != rep && txt.len() < 400 {
                pairs.push((txt, rep.clone()));
            }
        }
    }
    rng.shuffle(&mut pairs);
    pairs.truncate(max);
    pairs
}

/// Evaluate I(E) and the next-query clause on `e`; returns false on violation.
pub fn check_invariant(e: &mut Engine, res: &mut CaseResult, after: &str, rng: &mut Rng, queries: usize) -> bool {
    let (raw, dump) = match e.dump() {
        Ok(x) => x,
        Err(p) => {
            res.violation("read-api-panic", format!("after {after}: {p}"));
            return false;
        }
    };
    res.count("invariant_evaluations", 1);
    res.state(dump.hash());
    match e.invariant(&raw) {
        Ok(problems) => {
            if let Some(p) = problems.first() {
                let class = if p.starts_with("name-indexed read") {
                    "name-indexed-read-failed"
                } else if p.starts_with("non-canonical") {
                    "non-canonical-id"
                } else if p.contains("two rows for key") {
                    "duplicate-key"
                } else if p.starts_with("set with duplicate") {
                    "container-not-canonical"
                } else if p.contains("serialize()") {
                    "serialize-disagrees"
                } else {
                    "size-disagrees"
                };
                res.violation(class, format!("after {after}: {p}"));
                return false;
            }
        }
        Err(p) => {
            res.violation("read-api-panic", format!("invariant after {after}: {p}"));
            return false;
        }
    }
    for (a, b) in recorded_equalities(&raw, queries, rng) {
        res.count("next_query_checks", 1);
        let o = e.run(&format!("(check (= {a} {b}))"));
        if o.kind() == "Type" || o.kind() == "Parse" {
            // the probe itself was refused (e.g. a half-applied declaration
            // changed a signature): that is C09's verdict, not a statement
            // about canonicity
            res.count("probe_query_refused", 1);
            continue;
        }
        if !o.is_ok() {
            res.violation(
                "recorded-equality-not-visible",
                format!("after {after}: rows for {a} and {b} carry the same class but (check (= ..)) says {}", o.brief()),
            );
            return false;
        }
    }
    true
}

pub fn count_outcome(res: &mut CaseResult, o: &Outcome) {
    match o {
        Outcome::Ok(_) => {}
        Outcome::Err { kind, msg } => {
            let k = if kind == "Backend" {
                if msg.contains("injected") {
                    "rule_panic".to_string()
                } else if msg.contains("merge") || msg.contains("no-merge") || msg.contains("Illegal") {
                    "merge_conflict".to_string()
                } else {
                    "backend_error".to_string()
                }
            } else {
                kind.to_lowercase()
            };
            res.count(&format!("fault:{k}"), 1);
        }
        Outcome::Panic(_) => res.count("fault:panic", 1),
    }
}

impl Property for C04 {
    fn id(&self) -> &'static str {
        "C04"
    }
    fn level(&self) -> &'static str {
        "fault_enumeration"
    }
    fn technique(&self) -> &'static str {
        "deterministic simulation with fault injection: seeded histories with commands that die while executing (rule panic, flaky primitive at its k-th call, :no-merge conflict, failed lookup, arithmetic failure, failing merge), rejected commands and I/O failures at arbitrary positions; consistency invariant evaluated after every operation"
    }
    fn rule(&self) -> &'static str {
        "case = seeded history (declarations, rules, writes, runs, push/pop, subsume/delete) with 0-3 injected faults (F4 execution failures placed inside iterations that also stage unions and merges, F5 rejected commands, F6 I/O failures), serial or threaded under the token scheduler; half of the serial cases and all threaded ones draw the rebuild knobs (incremental table / container / bridge rebuild forced or forbidden, rehash threshold, rebuild step size). After every command: unique key per table, every stored e-class id (in columns and inside containers) is its own representative, get_size = scan length, serialize() describes the same number of rows, and up to 3 pairs of terms that the dump shows in one class must pass (check (= a b)) immediately. Non-trivial = at least one fault fired and the database has >= 3 rows; distinct = distinct operation lists."
    }
    fn assumptions(&self) -> Vec<String> {
        vec![
            "the invariant is read through the public API only (functions_iter, constructor_enodes, function_entries, value_to_class_id, value_to_container, get_size, serialize)".into(),
            "a failed command has no promised partial effect; only consistency of what is there is demanded".into(),
        ]
    }
    fn budget(&self, tier: Tier) -> Budget {
        match tier {
            Tier::Quick => Budget { cases: 8000, wall_s: 120 },
            Tier::Thorough => Budget { cases: 200_000, wall_s: 1800 },
        }
    }
    fn generate(&self, seed: u64, index: u64, _tier: Tier) -> Case {
        let mut case = Case::new("C04", seed);
        let root = Rng::new(seed);
        let mut cfg_rng = root.fork("cfg");
        let mut f = Features::draw(&mut cfg_rng);
        f.subsume = cfg_rng.chance(1, 3);
        f.delete = cfg_rng.chance(1, 4);
        f.containers = cfg_rng.chance(1, 3);
        f.pushpop = cfg_rng.chance(1, 3);
        f.nomerge = cfg_rng.chance(1, 3);
        f.functions = true;
        let containers = f.containers;
        let mut g = Gen::new(root.fork("workload"), f);
        let mut ops = to_text(&g.gen_decls());
        let session = to_text(&g.gen_session());
        // place faults at arbitrary positions of the history
        let nfaults = cfg_rng.weighted(&[2, 4, 3, 1]);
        let mut slots: Vec<usize> = (0..nfaults).map(|_| cfg_rng.below(session.len() + 1)).collect();
        slots.sort();
        let mut frng = root.fork("faults");
        for (i, op) in session.iter().enumerate() {
            while slots.first() == Some(&i) {
                slots.remove(0);
                let mut all = ops.clone();
                all.extend(session[..i].iter().cloned());
                let f_ops = match frng.weighted(&[6, 2, 1]) {
                    0 => faults::gen_f4(&mut g),
                    1 => vec![faults::gen_f5(&mut g, &all)],
                    _ => faults::gen_f6(&mut g),
                };
                ops.extend(f_ops);
                // run right after: the fault must land inside an iteration
                if frng.chance(2, 3) {
                    ops.push(g.gen_run().to_string());
                }
            }
            ops.push(op.clone());
            if containers && cfg_rng.chance(1, 3) {
                // unions among (likely) container elements: containers collide, survive under
                // another id and must stay reachable for the next rebuild
                let s = g.rng.below(g.sig.sorts.len());
                let a = g.ground_term(s, 1);
                let b = g.ground_term(s, 1);
                ops.push(crate::sexp::Sexp::call("union", vec![a, b]).to_string());
                if cfg_rng.chance(1, 2) {
                    ops.push(g.gen_run().to_string());
                }
            }
        }
        case.ops = ops;
        let fails: Vec<u64> = (0..cfg_rng.below(3)).map(|_| cfg_rng.below(6) as u64).collect();
        case.cfg.insert("flaky_fail_at".into(), json!(fails));
        if index % 10 == 9 {
            draw_threaded(&mut case, &mut cfg_rng);
            draw_knobs(&mut case, &mut cfg_rng);
        } else if containers || cfg_rng.chance(1, 2) {
            // size-dependent rebuild paths (incremental table / container rebuild,
            // rehash thresholds) forced or forbidden on small databases
            draw_knobs(&mut case, &mut cfg_rng);
            if containers && cfg_rng.chance(1, 2) {
                if let Some(serde_json::Value::Object(m)) = case.cfg.get_mut("knobs") {
                    m.insert("container_incremental_rebuild".into(), json!(1));
                }
            }
        }
        case
    }
    fn check(&self, case: &Case) -> CaseResult {
        let mut res = CaseResult::new();
        let threads = case.threads() as usize;
        let fail_at: Vec<u64> = case
            .cfg
            .get("flaky_fail_at")
            .and_then(|v| v.as_array())
            .map(|a| a.iter().filter_map(|x| x.as_u64()).collect())
            .unwrap_or_default();
        let mut qrng = Rng::new(case.seed).fork("queries");
        maybe_sim(case, &mut res, |res| {
            let mut e = Engine::new(Mode::Plain, threads);
            let flaky = faults::Flaky::new(fail_at.clone());
            faults::install_flaky(&mut e.eg, flaky.clone());
            let mut fired = 0u64;
            let mut rows = 0usize;
            for op in &case.ops {
                let o = e.run(op);
                res.log(&format!("{op} => {}", normalized(&o)));
                count_outcome(res, &o);
                if !o.is_ok() {
                    fired += 1;
                }
                if let Outcome::Panic(p) = &o {
                    // a panic is C09's verdict; here only consistency is judged
                    res.count("panics_seen", 1);
                    let _ = p;
                }
                if !check_invariant(&mut e, res, op, &mut qrng, 3) {
                    break;
                }
                rows = e.eg.num_tuples();
                if rows > 3000 {
                    res.inconclusive("size bound");
                    break;
                }
            }
            res.count("fault:flaky_primitive", flaky.fired.load(std::sync::atomic::Ordering::SeqCst));
            res.nontrivial = fired > 0 && rows >= 3;
        });
        res
    }
}
