//! C11 — term and proof encodings preserve observable behaviour. The plain
//! engine is the reference model of the encoded ones (refinement), checked
//! command by command; the printed encoded program re-fed to a plain engine
//! must behave the same again.

use super::{Budget, Property, Tier};
use crate::case::{Case, CaseResult};
use crate::exec::{Engine, Mode};
use crate::faults;
use crate::rng::Rng;
use crate::wgen::{Features, Gen, to_text};
use egglog::{CommandOutput, EGraph};

pub struct C11;

fn snapshot(outs: &[CommandOutput]) -> String {
    CommandOutput::snapshot_stable_under_proof_encoding(outs)
}

impl Property for C11 {
    fn id(&self) -> &'static str {
        "C11"
    }
    fn level(&self) -> &'static str {
        "translation_validation"
    }
    fn technique(&self) -> &'static str {
        "deterministic simulation of seeded sessions (with rejected commands and snapshots inside) on the plain engine and on the term- and proof-encoded engines in lock-step; translation validation per command, plus the print-reparse-run variant of the encoded program"
    }
    fn rule(&self) -> &'static str {
        "program = seeded session accepted by program_supports_proofs (constructors, relations, merge functions, rules, rewrites, subsume, delete, globals, push/pop, extract, print-size) with 0-2 rejected commands inserted; run command by command on EGraph::default(), new_with_term_encoding() and new_with_proofs(): success/failure of every command and the snapshot_stable_under_proof_encoding text of its outputs (check outcomes, sizes, extraction costs) must agree; then resolve_program of the encoded runs is printed, re-parsed and run on a plain engine and must give the same text again. disagreements_checked = number of (command, mode) comparisons."
    }
    fn assumptions(&self) -> Vec<String> {
        vec![
            "programs outside what the encoder declares supported are inconclusive (counted), not compared".into(),
            "extracted terms and print-function output are dropped by snapshot_stable_under_proof_encoding (upstream's own definition of what is stable)".into(),
        ]
    }
    fn budget(&self, tier: Tier) -> Budget {
        match tier {
            Tier::Quick => Budget { cases: 8000, wall_s: 150 },
            Tier::Thorough => Budget { cases: 60_000, wall_s: 2400 },
        }
    }
    fn timeout_s(&self) -> u64 {
        60
    }
    fn generate(&self, seed: u64, _index: u64, _tier: Tier) -> Case {
        let mut case = Case::new("C11", seed);
        let root = Rng::new(seed);
        let mut cfg_rng = root.fork("cfg");
        let mut f = Features::draw(&mut cfg_rng);
        // generic container sorts stay off: see DESIGN §6 (encoder gaps outside the explored fragment)
        f.containers = false;
        f.nested_containers = false;
        f.set_funcs = false;
        f.bool_funcs = false;
        f.nomerge = false;
        f.subsume = cfg_rng.chance(1, 3);
        f.delete = cfg_rng.chance(1, 5);
        f.pushpop = cfg_rng.chance(1, 4);
        f.prints = false;
        f.extract = true;
        f.max_cmds = 4 + cfg_rng.below(5);
        f.max_run = 1 + cfg_rng.below(2);
        f.max_rules = 1 + cfg_rng.below(3);
        let mut g = Gen::new(root.fork("workload"), f);
        let mut ops = to_text(&g.gen_decls());
        let session = to_text(&g.gen_session());
        let nbad = cfg_rng.weighted(&[3, 2, 1]);
        let mut slots: Vec<usize> = (0..nbad).map(|_| cfg_rng.below(session.len() + 1)).collect();
        slots.sort();
        for (i, op) in session.iter().enumerate() {
            while slots.first() == Some(&i) {
                slots.remove(0);
                let all = ops.clone();
                ops.push(format!("(@bad {})", faults::gen_f5(&mut g, &all).replace('\n', " ")));
            }
            ops.push(op.clone());
        }
        if cfg_rng.chance(1, 3) {
            // tables whose only rebuildable columns are containers of e-classes: a function
            // from base values to a container, and a relation over one; a union then makes a
            // stored element non-canonical and every mode must rebuild the stored container
            let mut t = root.fork("contfn");
            let (sort, mk): (&str, fn(&str, &str) -> String) = match t.below(3) {
                0 => ("Vec", |a, b| format!("(vec-of {a} {b})")),
                1 => ("Set", |a, b| format!("(set-of {a} {b})")),
                _ => ("MultiSet", |a, b| format!("(multiset-of {a} {b})")),
            };
            ops.push("(datatype M11__ (N11__ i64) (V11__) (Z11__))".into());
            ops.push(format!("(sort C11__ ({sort} M11__))"));
            ops.push("(function best11__ (i64) C11__ :merge new)".into());
            ops.push("(constructor wrap11__ (C11__) M11__)".into());
            let (a, b) = if t.chance(1, 2) { ("(V11__)", "(Z11__)") } else { ("(Z11__)", "(V11__)") };
            ops.push(a.to_string());
            ops.push(b.to_string());
            let n = 1 + t.below(3);
            for i in 0..n {
                ops.push(format!("(set (best11__ {i}) {})", mk(&format!("(N11__ {i})"), "(V11__)")));
            }
            if t.chance(1, 2) {
                ops.push(format!("(wrap11__ {})", mk("(N11__ 0)", "(V11__)")));
            }
            ops.push("(union (V11__) (Z11__))".into());
            if t.chance(1, 2) {
                ops.push(g.gen_run().to_string());
            }
            for i in 0..n {
                ops.push(format!("(check (= (best11__ {i}) {}))", mk(&format!("(N11__ {i})"), "(Z11__)")));
            }
            ops.push(format!("(check (= (wrap11__ {}) (wrap11__ {})))", mk("(N11__ 0)", "(V11__)"), mk("(N11__ 0)", "(Z11__)")));
            ops.push("(print-size best11__)".into());
        }
        ops.push("(print-size)".into());
        case.ops = ops;
        case
    }
    fn check(&self, case: &Case) -> CaseResult {
        let mut res = CaseResult::new();
        // the bad commands are marked so that the "whole program" variants can skip them
        let cmds: Vec<(bool, String)> = case
            .ops
            .iter()
            .map(|o| match o.strip_prefix("(@bad ") {
                Some(rest) => (true, rest[..rest.len().saturating_sub(1)].to_string()),
                None => (false, o.clone()),
            })
            .collect();
        let good: Vec<String> = cmds.iter().filter(|c| !c.0).map(|c| c.1.clone()).collect();
        let whole = good.join("\n");
        // supported by the encoder?
        let supported = crate::exec::guarded(|| {
            let mut probe = EGraph::default();
            match probe.resolve_program(None, &whole) {
                Ok(des) => Some(egglog::program_supports_proofs(&des, probe.type_info())),
                Err(_) => None,
            }
        });
        match supported {
            Ok(Some(true)) => {}
            Ok(Some(false)) => {
                res.inconclusive("program not supported by the proof encoder");
                return res;
            }
            Ok(None) => {
                res.inconclusive("program does not resolve on the plain engine");
                return res;
            }
            Err(p) => {
                res.inconclusive(&format!("resolve panicked (C09 territory): {}", p.split(' ').next().unwrap_or("")));
                return res;
            }
        }
        let uses: Vec<&str> = ["subsume", "delete", "push"].into_iter().filter(|k| case.ops.iter().any(|o| o.contains(k))).collect();
        let tag = format!(" [history uses: {}]", uses.join(","));
        let mut plain = Engine::new(Mode::Plain, 1);
        let mut accepted: Vec<String> = Vec::new();
        let mut term = Engine::new(Mode::TermEncoding, 1);
        let mut proofs = Engine::new(Mode::Proofs, 1);
        let mut compared = 0u64;
        let mut plain_all_ok = true;
        let mut plain_text = String::new();
        for (is_bad, cmd) in &cmds {
            let p = plain.run_raw(cmd);
            let (p_ok, p_snap) = match &p {
                Ok(Ok(outs)) => (true, snapshot(outs)),
                Ok(Err(_)) => (false, String::new()),
                Err(pn) => {
                    res.inconclusive(&format!("plain engine panicked (C09 territory): {}", pn.split(' ').next().unwrap_or("")));
                    return res;
                }
            };
            res.log(&format!("{cmd} => ok={p_ok} {p_snap:?}"));
            // a "bad" command the plain engine accepts (e.g. a pop that matches a push) is part of the program
            if !*is_bad || p_ok {
                plain_all_ok &= p_ok;
                plain_text.push_str(&p_snap);
                accepted.push(cmd.clone());
            }
            for (name, e) in [("term-encoding", &mut term), ("proofs", &mut proofs)] {
                let r = e.run_raw(cmd);
                compared += 1;
                match &r {
                    Err(pn) => {
                        res.violation(&format!("{name}-panic"), format!("{}: {pn}", cmd.chars().take(200).collect::<String>()));
                        return res;
                    }
                    Ok(Ok(outs)) => {
                        if !p_ok {
                            res.violation(&format!("{name}-accepts-what-plain-refuses"), format!("{}: plain failed, {name} succeeded{tag}", cmd.chars().take(200).collect::<String>()));
                            return res;
                        }
                        let s = snapshot(outs);
                        if s != p_snap {
                            res.violation(&format!("{name}-output-differs"), format!("{}: plain {p_snap:?} {name} {s:?}{tag}", cmd.chars().take(200).collect::<String>()));
                            return res;
                        }
                    }
                    Ok(Err(err)) => {
                        if p_ok {
                            res.violation(
                                &format!("{name}-refuses-what-plain-accepts"),
                                format!("{}: plain ok, {name} err {} ({}){tag}", cmd.chars().take(200).collect::<String>(), crate::exec::error_kind(err), err.to_string().lines().last().unwrap_or("").chars().take(120).collect::<String>()),
                            );
                            return res;
                        }
                    }
                }
            }
        }
        res.count("programs", 1);
        res.count("disagreements_checked", compared);
        res.nontrivial = plain_text.len() > 10;
        res.state(crate::rng::hash_str(&plain_text));
        // print-reparse-run of the encoded program
        if plain_all_ok {
            let whole = accepted.join("\n");
            for (name, mode) in [("term-encoding", Mode::TermEncoding), ("proofs", Mode::Proofs)] {
                let text = crate::exec::guarded(|| {
                    let mut e = Engine::new(mode, 1);
                    e.eg.resolve_program(None, &whole).map(|v| v.iter().map(|c| c.to_string()).collect::<Vec<_>>().join("\n"))
                });
                let text = match text {
                    Ok(Ok(t)) => t,
                    Ok(Err(e)) => {
                        res.violation(&format!("{name}-resolve-fails"), format!("resolve_program failed on a program that runs: {}", e.to_string().lines().last().unwrap_or("")));
                        return res;
                    }
                    Err(p) => {
                        res.violation(&format!("{name}-resolve-panic"), p);
                        return res;
                    }
                };
                let mut e = Engine::new(Mode::Plain, 1);
                e.eg.ensure_no_reserved_symbols(false);
                match e.run_raw(&text) {
                    Err(p) => {
                        res.violation(&format!("{name}-reparse-panic"), p);
                        return res;
                    }
                    Ok(Err(err)) => {
                        res.violation(&format!("{name}-reparse-fails"), format!("the printed encoded program does not run: {}", err.to_string().lines().last().unwrap_or("").chars().take(160).collect::<String>()));
                        return res;
                    }
                    Ok(Ok(outs)) => {
                        let s = snapshot(&outs);
                        res.count("reparse_runs", 1);
                        if s != plain_text {
                            res.violation(&format!("{name}-reparse-output-differs"), format!("plain {plain_text:?} vs re-parsed {name} {s:?}{tag}"));
                            return res;
                        }
                    }
                }
            }
        }
        res
    }
}
