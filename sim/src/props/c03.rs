//! C03 — semi-naive evaluation is observationally identical to naive evaluation.
//! Every history runs on three engines in lock-step (semi-naive, semi-naive
//! switched off, rules marked `:naive`); dumps must agree after every
//! iteration and every command.

use super::common::*;
use super::{Budget, Property, Tier};
use crate::case::{Case, CaseResult};
use crate::exec::{Engine, Mode};
use crate::wgen::{Features, Gen, to_text};
use crate::rng::Rng;
use crate::sexp::Sexp;
use serde_json::json;

pub struct C03;

/// Add `:naive` to a `(rule ..)` command.
fn naive_variant(op: &str) -> String {
    if let Some(Sexp::List(mut v)) = parse_op(op) {
        if v.first().and_then(|x| x.as_atom()) == Some("rule")
            && !v.iter().any(|x| x.as_atom() == Some(":naive"))
        {
            v.push(Sexp::atom(":naive"));
            return Sexp::List(v).to_string();
        }
    }
    op.to_string()
}

impl Property for C03 {
    fn id(&self) -> &'static str {
        "C03"
    }
    fn level(&self) -> &'static str {
        "exploration"
    }
    fn technique(&self) -> &'static str {
        "deterministic simulation: seeded histories, lock-step differential (semi-naive vs naive vs :naive) after every iteration"
    }
    fn rule(&self) -> &'static str {
        "case = seeded monotone program (declarations, rules/rewrites in several rulesets, top-level writes, runs unrolled to single iterations, containers in a sub-batch) executed in lock-step on engines with seminaive on / off / rules marked :naive; threaded sub-batch under the token scheduler. Non-trivial = at least one iteration reported updated=true and the final database has >= 3 rows; distinct = distinct operation lists (hash)."
    }
    fn assumptions(&self) -> Vec<String> {
        vec![
            "F4 faults are not armed here: under a failing action the two modes may legitimately stop at different matches (covered by C04/C09)".into(),
            "delete is not generated (non-monotone)".into(),
            "comparison is up to e-class renaming via least-term naming; a dump containing a class without any finite term is counted inconclusive".into(),
        ]
    }
    fn budget(&self, tier: Tier) -> Budget {
        match tier {
            Tier::Quick => Budget { cases: 6000, wall_s: 100 },
            Tier::Thorough => Budget { cases: 150_000, wall_s: 1500 },
        }
    }
    fn generate(&self, seed: u64, index: u64, _tier: Tier) -> Case {
        let mut case = Case::new("C03", seed);
        let root = Rng::new(seed);
        let mut cfg_rng = root.fork("cfg");
        let mut f = Features::draw(&mut cfg_rng);
        f.subsume = cfg_rng.chance(1, 4);
        f.containers = cfg_rng.chance(1, 4);
        f.nested_containers = f.containers && cfg_rng.chance(1, 3);
        f.pushpop = cfg_rng.chance(1, 6);
        f.multi_rulesets = cfg_rng.chance(2, 3);
        let mut g = Gen::new(root.fork("workload"), f);
        let mut ops = g.gen_decls();
        ops.extend(g.gen_session());
        case.ops = to_text(&ops);
        if cfg_rng.chance(1, 2) {
            draw_knobs(&mut case, &mut cfg_rng);
        }
        if index % 12 == 11 {
            draw_threaded(&mut case, &mut cfg_rng);
        }
        case.cfg.insert("naive_third".into(), json!(cfg_rng.chance(1, 2)));
        case
    }
    fn check(&self, case: &Case) -> CaseResult {
        let mut res = CaseResult::new();
        let threads = case.threads() as usize;
        let third = case.cfg_bool("naive_third", false);
        maybe_sim(case, &mut res, |res| {
            let mut a = Engine::new(Mode::Plain, threads);
            let mut b = Engine::new(Mode::Plain, threads);
            b.eg.seminaive = false;
            let mut c = if third { Some(Engine::new(Mode::Plain, threads)) } else { None };
            let mut updated = 0u64;
            let mut last_rows = 0usize;
            'outer: for op in &case.ops {
                for step in unroll_run(op) {
                    let oa = a.run(&step);
                    let ob = b.run(&step);
                    let oc = c.as_mut().map(|c| c.run(&naive_variant(&step)));
                    res.log(&format!("{step} => {}", normalized(&oa)));
                    if oa.is_panic() || ob.is_panic() {
                        if oa.is_panic() != ob.is_panic() {
                            res.violation(
                                "outcome-mismatch",
                                format!("{step}: seminaive={} naive={}", oa.brief(), ob.brief()),
                            );
                        } else {
                            res.inconclusive("panic in both modes (C09/C04 territory)");
                        }
                        break 'outer;
                    }
                    if normalized(&oa) != normalized(&ob) {
                        res.violation(
                            "outcome-mismatch",
                            format!("{step}: seminaive={} naive={}", normalized(&oa), normalized(&ob)),
                        );
                        break 'outer;
                    }
                    if let Some(oc) = &oc {
                        if normalized(&oa) != normalized(oc) {
                            res.violation(
                                "outcome-mismatch-naive-rules",
                                format!("{step}: seminaive={} :naive={}", normalized(&oa), normalized(oc)),
                            );
                            break 'outer;
                        }
                    }
                    if let crate::exec::Outcome::Ok(outs) = &oa {
                        if outs.iter().any(|o| o == "run updated=true") {
                            updated += 1;
                        }
                    }
                    let (da, db) = match (a.dump(), b.dump()) {
                        (Ok(x), Ok(y)) => (x.1, y.1),
                        (x, y) => {
                            res.violation(
                                "dump-panic",
                                format!("{step}: {:?} {:?}", x.err(), y.err()),
                            );
                            break 'outer;
                        }
                    };
                    res.count("dumps_compared", 1);
                    if da.orphans > 0 || db.orphans > 0 {
                        res.count("inconclusive_orphan_steps", 1);
                        continue;
                    }
                    if da.rows > 600 {
                        res.inconclusive("size bound");
                        break 'outer;
                    }
                    last_rows = da.rows;
                    res.state(da.hash());
                    if da.lines != db.lines {
                        res.violation(
                            "dump-mismatch",
                            format!("after {step}: {}", da.first_diff(&db)),
                        );
                        break 'outer;
                    }
                    if let Some(c) = &c {
                        if let Ok((_, dc)) = c.dump() {
                            if dc.orphans == 0 && da.lines != dc.lines {
                                res.violation(
                                    "dump-mismatch-naive-rules",
                                    format!("after {step}: {}", da.first_diff(&dc)),
                                );
                                break 'outer;
                            }
                        }
                    }
                }
            }
            res.nontrivial = updated > 0 && last_rows >= 3;
            res.count("iterations_updated", updated);
        });
        res
    }
}
