//! C14 — containers of e-classes stay canonical and keep rules firing.

use super::common::*;
use super::modelcheck::{Opts, run_lockstep};
use super::{Budget, Property, Tier};
use crate::case::{Case, CaseResult};
use crate::exec::{Engine, Mode};
use crate::rng::Rng;
use crate::sexp::Sexp;
use crate::wgen::{Features, Gen, Ty, to_text};

pub struct C14;

impl Property for C14 {
    fn id(&self) -> &'static str {
        "C14"
    }
    fn level(&self) -> &'static str {
        "exploration"
    }
    fn technique(&self) -> &'static str {
        "deterministic simulation: seeded histories over Vec/Set/MultiSet/Map/Pair (and nested) containers of e-classes with unions among their elements; both container rebuild strategies and serial/parallel container rebuild forced per run (knobs, cut-offs 0, token scheduler); refinement against the reference model after every iteration plus a semi-naive vs naive differential"
    }
    fn rule(&self) -> &'static str {
        "case = container sorts over eq-sorts (Vec, Set, MultiSet, Map with non-colliding integer keys, Pair, one nested level), constructors, relations and functions keyed by or holding containers, rules whose bodies mention ground containers (matchable only modulo the current equalities) or bind them, and union sequences over the elements. After every command and every single iteration the engine's dump with container contents expanded must equal the model's (equal contents = one value, rows keyed by equal containers merged) and an engine with semi-naive evaluation switched off must agree with the semi-naive one. Non-trivial = the history contains a container value and an iteration updated the database; distinct = distinct operation lists."
    }
    fn assumptions(&self) -> Vec<String> {
        vec![
            "Map keys are integers (no collisions): which value survives a key collision is id-order dependent and outside the claim".into(),
            "set-get and other id-order dependent container primitives are not generated".into(),
        ]
    }
    fn budget(&self, tier: Tier) -> Budget {
        match tier {
            Tier::Quick => Budget { cases: 6000, wall_s: 120 },
            Tier::Thorough => Budget { cases: 150_000, wall_s: 1800 },
        }
    }
    fn generate(&self, seed: u64, index: u64, _tier: Tier) -> Case {
        let mut case = Case::new("C14", seed);
        let root = Rng::new(seed);
        let mut cfg_rng = root.fork("cfg");
        let mut f = Features::draw(&mut cfg_rng);
        f.containers = true;
        f.nested_containers = cfg_rng.chance(1, 2);
        f.relations = true;
        f.functions = cfg_rng.chance(1, 2);
        f.rewrites = true;
        f.prints = false;
        f.pushpop = cfg_rng.chance(1, 8);
        let mut g = Gen::new(root.fork("workload"), f);
        let mut ops = to_text(&g.gen_decls());
        let session = to_text(&g.gen_session());
        let mut rng = root.fork("extra");
        // facts that put containers into tables
        for _ in 0..2 + rng.below(4) {
            let cands: Vec<crate::wgen::Ctor> = g.sig.ctors.iter().filter(|c| c.args.iter().any(|t| matches!(t, Ty::Cont(_)))).cloned().collect();
            if let Some(c) = cands.get(rng.below(cands.len().max(1))) {
                let args: Vec<Sexp> = c.args.iter().map(|t| g.ground(t, 1)).collect();
                ops.push(Sexp::call(&c.name, args).to_string());
            }
        }
        for op in session {
            ops.push(op);
            if rng.chance(1, 3) {
                // unions among (likely) container elements
                let s = g.rng.below(g.sig.sorts.len());
                let a = g.ground_term(s, 1);
                let b = g.ground_term(s, 1);
                ops.push(Sexp::call("union", vec![a, b]).to_string());
                ops.push(g.gen_run().to_string());
            }
        }
        // A rule that becomes matchable only through an in-place container rebuild:
        // it has already run (so semi-naive only looks at new rows), then two elements
        // are united, which rewrites the container's contents without changing its id.
        if rng.chance(2, 3) {
            let cands: Vec<(crate::wgen::Ctor, usize)> = g
                .sig
                .ctors
                .iter()
                .filter_map(|c| match c.args.as_slice() {
                    [Ty::Cont(k)] => Some((c.clone(), *k)),
                    _ => None,
                })
                .collect();
            if let Some((ctor, k)) = cands.get(rng.below(cands.len().max(1))).cloned() {
                let cont = g.sig.conts[k].clone();
                // element sort (one nesting level is unfolded)
                let (elem_sort, wrap): (Option<usize>, Option<crate::wgen::Cont>) = match &cont.elem {
                    Ty::Eq(s) => (Some(*s), None),
                    Ty::Cont(i) => match &g.sig.conts[*i].elem {
                        Ty::Eq(s) => (Some(*s), Some(g.sig.conts[*i].clone())),
                        _ => (None, None),
                    },
                    _ => (None, None),
                };
                if let Some(s) = elem_sort {
                    let leaves: Vec<String> = g.sig.ctors.iter().filter(|c| c.out == s && c.args.is_empty()).map(|c| format!("({})", c.name)).collect();
                    if leaves.len() >= 2 {
                        let a = leaves[rng.below(leaves.len())].clone();
                        let mut b = leaves[rng.below(leaves.len())].clone();
                        if a == b {
                            b = leaves.iter().find(|x| **x != a).unwrap().clone();
                        }
                        let build = |kind: &crate::wgen::ContKind, x: &str, y: &str| -> String {
                            match kind {
                                crate::wgen::ContKind::Vec => format!("(vec-of {x} {y})"),
                                crate::wgen::ContKind::Set => format!("(set-of {x} {y})"),
                                crate::wgen::ContKind::MultiSet => format!("(multiset-of {x} {y})"),
                                crate::wgen::ContKind::Map => format!("(map-insert (map-insert (map-empty) 0 {x}) 1 {y})"),
                                crate::wgen::ContKind::Pair => format!("(pair {x} 0)"),
                            }
                        };
                        let (before, after) = match &wrap {
                            None => (build(&cont.kind, &a, &b), build(&cont.kind, &a, &a)),
                            Some(inner) => {
                                let ib = build(&inner.kind, &a, &b);
                                let ia = build(&inner.kind, &a, &a);
                                (build(&cont.kind, &ib, &ib), build(&cont.kind, &ia, &ia))
                            }
                        };
                        // sets collapse duplicates: write the canonical form the pattern must take
                        let rs = g.pick_ruleset();
                        ops.push("(relation Hit__ (i64))".into());
                        ops.push(format!("(rule ((= e__ ({} {after}))) ((Hit__ 1)) :ruleset {rs})", ctor.name));
                        ops.push(format!("({} {before})", ctor.name));
                        ops.push(format!("(run {rs} 1)"));
                        ops.push(format!("(union {a} {b})"));
                        ops.push(format!("(run {rs} 1)"));
                        ops.push("(check (Hit__ 1))".into());
                    }
                }
            }
        }
        ops.extend(super::c01::probe_ops(&mut g, 2));
        case.ops = ops;
        if index % 6 == 5 {
            draw_threaded(&mut case, &mut cfg_rng);
            if let Some(serde_json::Value::Object(env)) = case.cfg.get_mut("env") {
                env.insert("EGGLOG_PARALLEL_INTER_CONTAINER_CUTOFF".into(), serde_json::json!("0"));
                env.insert("EGGLOG_PARALLEL_INTRA_CONTAINER_CUTOFF".into(), serde_json::json!("0"));
            }
        }
        draw_knobs(&mut case, &mut cfg_rng);
        case
    }
    fn timeout_s(&self) -> u64 {
        15
    }
    fn check(&self, case: &Case) -> CaseResult {
        let mut res = CaseResult::new();
        let opts = Opts { pair_checks: 6, ..Opts::default() };
        run_lockstep(case, &mut res, &opts);
        if res.is_violation() || case.cfg_bool("sim", false) {
            return res;
        }
        // second oracle: naive engine agrees with the semi-naive one after every iteration
        let mut a = Engine::new(Mode::Plain, 1);
        let mut b = Engine::new(Mode::Plain, 1);
        b.eg.seminaive = false;
        'outer: for op in &case.ops {
            for step in unroll_run(op) {
                let oa = normalized(&a.run(&step));
                let ob = normalized(&b.run(&step));
                if oa.starts_with("panic") || ob.starts_with("panic") {
                    break 'outer;
                }
                if oa != ob {
                    res.violation("naive-differs-outcome", format!("{step}: seminaive {oa} naive {ob}"));
                    break 'outer;
                }
                if let (Ok((_, da)), Ok((_, db))) = (a.dump(), b.dump()) {
                    if da.rows > 400 {
                        break 'outer;
                    }
                    if da.orphans == 0 && db.orphans == 0 && da.lines != db.lines {
                        res.violation("naive-differs-dump", format!("after {step}: {}", da.first_diff(&db)));
                        break 'outer;
                    }
                }
            }
        }
        res
    }
}
