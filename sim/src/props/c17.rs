//! C17 — union-find: same class iff connected, representative is the minimum
//! id; the concurrent structure is linearizable under the token scheduler.

use super::common::*;
use super::{Budget, Isolation, Property, Tier};
use crate::case::{Case, CaseResult};
use crate::rng::Rng;
use crate::sexp::{self, Sexp};
use egglog_concurrency::verif;
use egglog_numeric_id::NumericId;
use egglog_union_find::{UnionFind, concurrent};
use serde_json::json;
use std::collections::HashMap;
use std::sync::Arc;
use std::sync::atomic::{AtomicU64, Ordering};

pub struct C17;

#[derive(Clone, Copy, PartialEq, Eq, Hash, Debug, PartialOrd, Ord)]
pub struct Id(u32);
impl NumericId for Id {
    type Rep = u32;
    type Atomic = std::sync::atomic::AtomicU32;
    fn new(val: u32) -> Self {
        Id(val)
    }
    fn from_usize(index: usize) -> Self {
        Id(index as u32)
    }
    fn index(self) -> usize {
        self.0 as usize
    }
    fn rep(self) -> u32 {
        self.0
    }
}

/// Partition model: `lab[i]` = minimum id of i's class.
#[derive(Clone, PartialEq, Eq, Hash, Debug)]
struct Part {
    lab: Vec<u32>,
}

impl Part {
    fn new(n: usize) -> Part {
        Part {
            lab: (0..n as u32).collect(),
        }
    }
    fn find(&self, x: u32) -> u32 {
        self.lab[x as usize]
    }
    fn union(&mut self, a: u32, b: u32) -> (u32, u32) {
        let (ra, rb) = (self.find(a), self.find(b));
        if ra == rb {
            return (ra, ra);
        }
        let (p, c) = (ra.min(rb), ra.max(rb));
        for l in self.lab.iter_mut() {
            if *l == c {
                *l = p;
            }
        }
        (p, c)
    }
}

#[derive(Clone, Debug, PartialEq, Eq)]
enum Op {
    Union(u32, u32),
    Find(u32),
    Same(u32, u32),
    Reset,
}

#[derive(Clone, Debug, PartialEq, Eq)]
enum Ret {
    Pair(u32, u32),
    One(u32),
    Bool(bool),
    Done,
}

#[derive(Clone, Debug)]
struct Event {
    thread: usize,
    op: Op,
    ret: Ret,
    inv: u64,
    res: u64,
}

fn apply(p: &mut Part, op: &Op) -> Ret {
    match op {
        Op::Union(a, b) => {
            let (x, y) = p.union(*a, *b);
            Ret::Pair(x, y)
        }
        Op::Find(a) => Ret::One(p.find(*a)),
        Op::Same(a, b) => Ret::Bool(p.find(*a) == p.find(*b)),
        Op::Reset => {
            let n = p.lab.len();
            *p = Part::new(n);
            Ret::Done
        }
    }
}

/// Wing–Gong search with memoisation over (linearized set, model state).
/// Does `ret` agree with executing `op` atomically on `p`? With `relaxed`, the
/// *parent* reported by a union that really linked two classes may be any
/// member of the surviving class that is smaller than the child (the
/// implementation reads the surviving root before it links, see DESIGN §6).
fn step(p: &mut Part, op: &Op, ret: &Ret, relaxed: bool) -> bool {
    if relaxed {
        if let (Op::Union(a, b), Ret::Pair(x, y)) = (op, ret) {
            if x != y {
                let (ra, rb) = (p.find(*a), p.find(*b));
                if ra == rb {
                    return false;
                }
                let (lo, hi) = (ra.min(rb), ra.max(rb));
                if *y != hi || *x >= hi || (*x as usize) >= p.lab.len() || p.find(*x) != lo {
                    return false;
                }
                p.union(*a, *b);
                return true;
            }
        }
    }
    apply(p, op) == *ret
}

fn linearizable(events: &[Event], n: usize, relaxed: bool) -> bool {
    let m = events.len();
    let full: u32 = if m == 32 { u32::MAX } else { (1u32 << m) - 1 };
    let mut seen: std::collections::HashSet<(u32, Vec<u32>)> = std::collections::HashSet::new();
    fn go(
        events: &[Event],
        done: u32,
        full: u32,
        part: &Part,
        seen: &mut std::collections::HashSet<(u32, Vec<u32>)>,
        relaxed: bool,
    ) -> bool {
        if done == full {
            return true;
        }
        if !seen.insert((done, part.lab.clone())) {
            return false;
        }
        // earliest response among pending operations bounds what may go first
        let min_res = events
            .iter()
            .enumerate()
            .filter(|(i, _)| done & (1 << i) == 0)
            .map(|(_, e)| e.res)
            .min()
            .unwrap();
        for (i, e) in events.iter().enumerate() {
            if done & (1 << i) != 0 || e.inv > min_res {
                continue;
            }
            let mut p2 = part.clone();
            if step(&mut p2, &e.op, &e.ret, relaxed) && go(events, done | (1 << i), full, &p2, seen, relaxed) {
                return true;
            }
        }
        false
    }
    go(events, 0, full, &Part::new(n), &mut seen, relaxed)
}

fn parse_ops(s: &Sexp) -> Vec<Op> {
    s.args()
        .iter()
        .filter_map(|o| {
            let a: Vec<u32> = o.args().iter().filter_map(|x| x.as_int()).map(|x| x.clamp(0, 15) as u32).collect();
            match (o.head()?, a.as_slice()) {
                ("union", [x, y]) => Some(Op::Union(*x, *y)),
                ("find", [x]) => Some(Op::Find(*x)),
                ("same", [x, y]) => Some(Op::Same(*x, *y)),
                ("reset", []) => Some(Op::Reset),
                _ => None,
            }
        })
        .collect()
}

fn check_sequential(ops: &[Sexp], res: &mut CaseResult) {
    let n = 16usize;
    let mut uf: UnionFind<Id> = UnionFind::default();
    let mut model = Part::new(n);
    let mut unions = 0;
    for op in ops {
        let a: Vec<u32> = op.args().iter().filter_map(|x| x.as_int()).map(|x| x.clamp(0, 15) as u32).collect();
        match (op.head(), a.as_slice()) {
            (Some("union"), [x, y]) => {
                let got = uf.union(Id(*x), Id(*y));
                let want = model.union(*x, *y);
                unions += 1;
                res.log(&format!("union {x} {y} -> {got:?}"));
                if (got.0.0, got.1.0) != want {
                    res.violation("seq-union-result", format!("union({x},{y}) = {got:?}, model {want:?}"));
                    return;
                }
            }
            (Some("find"), [x]) => {
                let got = uf.find(Id(*x));
                res.log(&format!("find {x} -> {got:?}"));
                if got.0 != model.find(*x) {
                    res.violation("seq-find-not-min", format!("find({x}) = {}, class minimum {}", got.0, model.find(*x)));
                    return;
                }
            }
            (Some("reserve"), [x]) => uf.reserve(Id(*x)),
            (Some("reset"), _) => {
                uf.reset();
                model = Part::new(n);
            }
            _ => continue,
        }
        // after every operation: find_naive agrees, then compressing finds keep the partition
        let naive: Vec<u32> = (0..n as u32).map(|i| uf.find_naive(Id(i)).0).collect();
        if naive != model.lab {
            res.violation("seq-partition", format!("after {op}: find_naive {naive:?}, model {:?}", model.lab));
            return;
        }
        let mut probe = uf.clone();
        let comp: Vec<u32> = (0..n as u32).map(|i| probe.find(Id(i)).0).collect();
        let after: Vec<u32> = (0..n as u32).map(|i| probe.find_naive(Id(i)).0).collect();
        if comp != model.lab || after != model.lab {
            res.violation("seq-compression-changed-partition", format!("after {op}: {comp:?} / {after:?}, model {:?}", model.lab));
            return;
        }
        res.state(crate::rng::hash_str(&format!("{:?}", model.lab)));
    }
    res.nontrivial = unions >= 2;
}

fn check_concurrent(case: &Case, ops: &[Sexp], res: &mut CaseResult) {
    let cap = case.cfg_u64("cap", 1).clamp(1, 16) as usize;
    let threads: Vec<Vec<Op>> = ops.iter().filter(|o| o.head() == Some("thread")).map(parse_ops).collect();
    let n = 16usize;
    let uf: concurrent::UnionFind<Id> = concurrent::UnionFind::with_capacity(cap);
    let clock = Arc::new(AtomicU64::new(0));
    let mut hs = Vec::new();
    for (t, prog) in threads.iter().cloned().enumerate() {
        let uf = uf.clone();
        let clock = clock.clone();
        hs.push(verif::spawn(move || {
            let mut evs = Vec::new();
            for op in prog {
                // stamps come from a global event sequence (exactly one thread runs at a time)
                let inv = clock.fetch_add(1, Ordering::SeqCst);
                let ret = match &op {
                    Op::Union(a, b) => {
                        let (p, c) = uf.union(Id(*a), Id(*b));
                        Ret::Pair(p.0, c.0)
                    }
                    Op::Find(a) => Ret::One(uf.find(Id(*a)).0),
                    Op::Same(a, b) => Ret::Bool(uf.same_set(Id(*a), Id(*b))),
                    Op::Reset => {
                        uf.reset();
                        Ret::Done
                    }
                };
                let r = clock.fetch_add(1, Ordering::SeqCst);
                evs.push(Event { thread: t, op, ret, inv, res: r });
                verif::yield_point(verif::site::USER);
            }
            evs
        }));
    }
    let mut events: Vec<Event> = Vec::new();
    for h in hs {
        verif::sim_join(&h);
        match h.join() {
            Ok(e) => events.extend(e),
            Err(_) => {
                res.violation("concurrent-uf-panic", "a thread panicked".into());
                return;
            }
        }
    }
    events.sort_by_key(|e| e.inv);
    for e in &events {
        res.log(&format!("t{} {:?} -> {:?} [{},{}]", e.thread, e.op, e.ret, e.inv, e.res));
    }
    res.count("history_ops", events.len() as u64);
    if events.len() > 24 {
        res.inconclusive("history too long for the linearizability checker");
        return;
    }
    if !linearizable(&events, n, false) {
        // Split the verdict: a history that becomes linearizable once the
        // parent reported by a linking union may be stale is a different
        // (narrower) finding than a history no relaxation explains.
        let class = if linearizable(&events, n, true) {
            "union-reports-stale-parent"
        } else {
            "not-linearizable"
        };
        res.violation(
            class,
            format!("no sequential order of {:?} explains the results", events.iter().map(|e| format!("t{}:{:?}={:?}@[{},{}]", e.thread, e.op, e.ret, e.inv, e.res)).collect::<Vec<_>>()),
        );
        return;
    }
    // quiescent state: partition == connectivity, representative == minimum
    // (with a reset in the history the final partition depends on the
    // linearization order; the linearizability check above covers it)
    if events.iter().any(|e| e.op == Op::Reset) {
        res.nontrivial = true;
        return;
    }
    let mut model = Part::new(n);
    for e in &events {
        if let Op::Union(a, b) = e.op {
            model.union(a, b);
        }
    }
    let got: Vec<u32> = (0..n as u32).map(|i| uf.find(Id(i)).0).collect();
    if got != model.lab {
        res.violation("final-partition", format!("find = {got:?}, connectivity/min = {:?}", model.lab));
        return;
    }
    for a in 0..n as u32 {
        for b in 0..n as u32 {
            if uf.same_set(Id(a), Id(b)) != (model.find(a) == model.find(b)) {
                res.violation("final-same-set", format!("same_set({a},{b}) disagrees with connectivity"));
                return;
            }
        }
    }
    res.state(crate::rng::hash_str(&format!("{:?}", model.lab)));
    let overlapping = events.iter().enumerate().any(|(i, e)| events.iter().enumerate().any(|(j, f)| i != j && e.thread != f.thread && e.inv < f.res && f.inv < e.res));
    res.nontrivial = overlapping && events.iter().filter(|e| matches!(e.op, Op::Union(..))).count() >= 2;
    // deep copy isolation
    let copy = uf.deep_copy();
    copy.union(Id(14), Id(15));
    if model.find(14) != model.find(15) && uf.same_set(Id(14), Id(15)) {
        res.violation("deep-copy-leak", "union on a deep copy is visible in the original".into());
    }
    let _: HashMap<u8, u8> = HashMap::new();
}

impl Property for C17 {
    fn id(&self) -> &'static str {
        "C17"
    }
    fn level(&self) -> &'static str {
        "exploration"
    }
    fn technique(&self) -> &'static str {
        "deterministic simulation: concurrent union-find under the seeded token scheduler with yield points between every load and CAS and around the resize; histories checked for linearizability (Wing-Gong with memoisation) against a partition model; sequential structure checked op by op"
    }
    fn rule(&self) -> &'static str {
        "case = either a seeded sequential union/find/reset/reserve sequence over 16 ids (checked after every operation against a partition model: find = class minimum, find_naive agrees, compression keeps the partition) or 2-4 simulated threads x 2-6 operations (union, find, same_set) over <= 8 ids on a concurrent union-find of initial capacity 1-4 (growth through the resize protocol) under one seeded schedule; invoke/return stamped by a global event counter. Non-trivial = two operations of different threads overlap and >= 2 unions; distinct = distinct (program, schedule trace)."
    }
    fn assumptions(&self) -> Vec<String> {
        vec![
            "sequential specification of union's result: (minimum of the two class minima, the other class minimum), or (rep, rep) when already joined; find returns the class minimum at its linearization point".into(),
            "weak-memory effects are invisible to a serialising scheduler (Miri complement in the thorough tier)".into(),
        ]
    }
    fn real_vs_stub(&self) -> &'static str {
        "real: egglog-union-find (sequential and concurrent), egglog-concurrency ReadOptimizedLock/Notification, arc-swap; substituted: who runs next, Notification::wait (poll-and-yield)"
    }
    fn budget(&self, tier: Tier) -> Budget {
        match tier {
            Tier::Quick => Budget { cases: 60_000, wall_s: 90 },
            Tier::Thorough => Budget { cases: 3_000_000, wall_s: 1500 },
        }
    }
    fn isolation(&self, _case: &Case) -> Isolation {
        Isolation::Shared
    }
    fn generate(&self, seed: u64, index: u64, _tier: Tier) -> Case {
        let mut case = Case::new("C17", seed);
        let root = Rng::new(seed);
        let mut rng = root.fork("workload");
        let mut cfg = root.fork("cfg");
        if index % 4 == 3 {
            // sequential structure
            case.cfg.insert("mode".into(), json!("seq"));
            let n = 3 + rng.below(30);
            let dom = *rng.pick(&[4i64, 8, 16]);
            let mut ops = Vec::new();
            for _ in 0..n {
                ops.push(match rng.weighted(&[6, 4, 1, 1]) {
                    0 => Sexp::call("union", vec![Sexp::int(rng.range(0, dom - 1)), Sexp::int(rng.range(0, dom - 1))]),
                    1 => Sexp::call("find", vec![Sexp::int(rng.range(0, dom - 1))]),
                    2 => Sexp::call("reserve", vec![Sexp::int(rng.range(0, 15))]),
                    _ => Sexp::call("reset", vec![]),
                });
            }
            case.ops = ops.iter().map(|s| s.to_string()).collect();
            return case;
        }
        case.cfg.insert("mode".into(), json!("conc"));
        case.cfg.insert("sim".into(), json!(true));
        case.cfg.insert("sched_seed".into(), json!(cfg.next() >> 1));
        let policy = *cfg.pick(&["random", "random", "sticky", "pct", "starve"]);
        case.cfg.insert("policy".into(), json!(policy));
        case.cfg.insert("sticky_p".into(), json!(*cfg.pick(&[100u64, 180, 230])));
        case.cfg.insert("pct_changes".into(), json!(1 + cfg.below(3) as u64));
        case.cfg.insert("pct_horizon".into(), json!(*cfg.pick(&[30u64, 100, 400])));
        case.cfg.insert("starve".into(), json!(1 + cfg.below(4) as u64));
        case.cfg.insert("cap".into(), json!(*cfg.pick(&[1u64, 1, 2, 4])));
        case.cfg.insert("max_steps".into(), json!(200_000u64));
        let nt = 2 + rng.weighted(&[4, 3, 1]);
        let dom = *rng.pick(&[3i64, 4, 6, 8]);
        let per = if nt == 4 { 2 + rng.below(3) } else { 2 + rng.below(5) };
        let mut ops = Vec::new();
        for _ in 0..nt {
            let mut prog = Vec::new();
            for _ in 0..per {
                prog.push(match rng.weighted(&[24, 12, 8, 1]) {
                    0 => Sexp::call("union", vec![Sexp::int(rng.range(0, dom - 1)), Sexp::int(rng.range(0, dom - 1))]),
                    1 => Sexp::call("find", vec![Sexp::int(rng.range(0, dom - 1))]),
                    2 => Sexp::call("same", vec![Sexp::int(rng.range(0, dom - 1)), Sexp::int(rng.range(0, dom - 1))]),
                    _ => Sexp::call("reset", vec![]),
                });
            }
            ops.push(Sexp::call("thread", prog));
        }
        case.ops = ops.iter().map(|s| s.to_string()).collect();
        case
    }
    fn timeout_s(&self) -> u64 {
        20
    }
    fn timeout_is_violation(&self) -> bool {
        true
    }
    fn check(&self, case: &Case) -> CaseResult {
        let mut res = CaseResult::new();
        let ops: Vec<Sexp> = case.ops.iter().filter_map(|o| sexp::parse(o).ok()).collect();
        if case.cfg_str("mode") == Some("seq") {
            check_sequential(&ops, &mut res);
            return res;
        }
        maybe_sim(case, &mut res, |res| check_concurrent(case, &ops, res));
        res
    }
}
