//! Helpers shared by the engine-level properties.

use crate::case::{Case, CaseResult};
use crate::exec::Outcome;
use crate::sexp::{self, Sexp};
use egglog_concurrency::verif;
use serde_json::{Value, json};

/// `(run r n)` -> n times `(run r 1)` so that oracles see every iteration
/// boundary. Other commands are returned unchanged.
pub fn unroll_run(op: &str) -> Vec<String> {
    if let Ok(s) = sexp::parse(op) {
        if s.head() == Some("run") {
            let args = s.args();
            if args.len() == 2 {
                if let (Some(r), Some(n)) = (args[0].as_atom(), args[1].as_int()) {
                    if (1..=64).contains(&n) {
                        return (0..n).map(|_| format!("(run {r} 1)")).collect();
                    }
                }
            }
            if args.len() == 1 {
                if let Some(n) = args[0].as_int() {
                    if (1..=64).contains(&n) {
                        return (0..n).map(|_| "(run 1)".to_string()).collect();
                    }
                }
            }
        }
    }
    vec![op.to_string()]
}

/// Reduce outputs to what every property promises independent of scan order
/// and tie-breaking: extraction *cost* (not the term), number of printed rows.
pub fn normalize_outputs(outs: &[String]) -> Vec<String> {
    outs.iter()
        .map(|o| {
            if let Some(rest) = o.strip_prefix("extract cost=") {
                let cost = rest.split(' ').next().unwrap_or("");
                format!("extract cost={cost}")
            } else if o.starts_with('(') && o.contains('\n') {
                // print-function / variants block: compare the number of entries
                format!("block lines={}", o.lines().count())
            } else {
                o.clone()
            }
        })
        .collect()
}

pub fn normalized(o: &Outcome) -> String {
    match o {
        Outcome::Ok(outs) => format!("ok {:?}", normalize_outputs(outs)),
        Outcome::Err { kind, .. } => format!("err {kind}"),
        Outcome::Panic(m) => format!("panic {m}"),
    }
}

/// Apply the case's F3 knobs (process-global) — call before running anything.
pub fn apply_knobs(case: &Case) {
    verif::clear_knobs();
    if let Some(Value::Object(m)) = case.cfg.get("knobs") {
        for (k, v) in m {
            if let Some(n) = v.as_u64() {
                verif::set_knob(k, Some(n));
            }
        }
    }
}

pub fn sim_config(case: &Case) -> verif::SimConfig {
    let mut cfg = verif::SimConfig::new(case.cfg_u64("sched_seed", case.seed));
    cfg.policy = match case.cfg_str("policy").unwrap_or("random") {
        "sticky" => verif::Policy::Sticky(case.cfg_u64("sticky_p", 200) as u8),
        "pct" => verif::Policy::Pct {
            changes: case.cfg_u64("pct_changes", 2) as u32,
            horizon: case.cfg_u64("pct_horizon", 2000),
        },
        "starve" => verif::Policy::Starve(case.cfg_u64("starve", 1) as u32),
        _ => verif::Policy::Random,
    };
    cfg.sites = case.cfg_u64("sites", u64::MAX);
    cfg.max_steps = case.cfg_u64("max_steps", 3_000_000);
    cfg.replay = case.sched.clone();
    cfg.record = true;
    cfg
}

/// Run `f` under the token scheduler when the case asks for it
/// (`cfg.sim = true`), otherwise directly.
pub fn maybe_sim(case: &Case, res: &mut CaseResult, f: impl FnOnce(&mut CaseResult)) {
    apply_knobs(case);
    if !case.cfg_bool("sim", false) {
        f(res);
        record_probes(res);
        return;
    }
    let cfg = sim_config(case);
    let (r, report) = verif::run_sim(cfg, || f(res));
    res.steps = report.steps;
    res.handovers = report.handovers;
    res.trace_hash = report.trace_hash;
    res.trace = Some(report.trace.clone());
    res.count("sched_decisions", report.decisions);
    res.count("sim_threads", report.threads);
    for (i, h) in report.site_hits.iter().enumerate() {
        if *h > 0 {
            res.count(&format!("site:{}", verif::site::NAMES[i]), *h);
        }
    }
    if report.replay_diverged {
        res.verdict = crate::case::Verdict::HarnessError("schedule replay diverged".into());
    }
    if let Err(p) = r {
        let msg = crate::exec::take_panic().unwrap_or_else(|| {
            p.downcast_ref::<String>()
                .cloned()
                .or_else(|| p.downcast_ref::<&str>().map(|s| s.to_string()))
                .unwrap_or_default()
        });
        res.verdict = crate::case::Verdict::HarnessError(format!("harness panic: {msg}"));
    }
    record_probes(res);
}

pub fn record_probes(res: &mut CaseResult) {
    for (k, v) in verif::take_probes() {
        res.count(&format!("probe:{k}"), v);
    }
}

/// Swarm draw of the threaded configuration (F1/F2) into `case.cfg`.
pub fn draw_threaded(case: &mut Case, rng: &mut crate::rng::Rng) {
    let threads = *rng.pick(&[2u64, 2, 3, 4, 4, 8]);
    case.cfg.insert("threads".into(), json!(threads));
    case.cfg.insert("sim".into(), json!(true));
    case.cfg.insert("sched_seed".into(), json!(rng.next() >> 1));
    // Engine-level runs: the yield points inside the lock-free helpers are
    // reachable while a DashMap shard guard is held, where parking a thread
    // would stall the run; they are exercised by C19's own scenarios instead.
    let helper_sites: u64 = (1 << verif::site::CVEC)
        | (1 << verif::site::PWRITER)
        | (1 << verif::site::NLIST)
        | (1 << verif::site::ROLOCK)
        | (1 << verif::site::UF_FIND)
        | (1 << verif::site::UF_MERGE)
        | (1 << verif::site::UF_RESIZE);
    let mut sites = u64::MAX & !helper_sites;
    if rng.chance(1, 3) {
        // swarm: drop a random subset of the optional engine sites
        for s in [
            verif::site::SPAWN,
            verif::site::COMPLETE,
            verif::site::RULE_TASK,
            verif::site::ACTION_FLUSH,
            verif::site::TABLE_SHARD,
            verif::site::REBUILD_CHUNK,
            verif::site::CONTAINER,
        ] {
            if rng.chance(1, 3) {
                sites &= !(1u64 << s);
            }
        }
    }
    case.cfg.insert("sites".into(), json!(sites));
    let policy = *rng.pick(&["random", "random", "sticky", "pct", "starve"]);
    case.cfg.insert("policy".into(), json!(policy));
    case.cfg.insert("sticky_p".into(), json!(*rng.pick(&[128u64, 200, 240])));
    case.cfg.insert("pct_changes".into(), json!(1 + rng.below(3) as u64));
    case.cfg.insert("pct_horizon".into(), json!(*rng.pick(&[200u64, 1000, 5000])));
    case.cfg.insert("starve".into(), json!(1 + rng.below(threads as usize) as u64));
    // environment of the child process: the parallel cut-offs
    let mut env = serde_json::Map::new();
    for k in [
        "EGGLOG_PARALLEL_DB_LEVEL_OP_CUTOFF",
        "EGGLOG_PARALLEL_INDEX_CONSTRUCTION_CUTOFF",
        "EGGLOG_PARALLEL_REBUILD_CUTOFF",
        "EGGLOG_PARALLEL_INTRA_CONTAINER_CUTOFF",
        "EGGLOG_PARALLEL_INTER_CONTAINER_CUTOFF",
        "EGGLOG_PARALLEL_TABLE_OP_CUTOFF",
    ] {
        let v = *rng.pick(&["0", "0", "0", "1", "3", "16"]);
        if !rng.chance(1, 8) {
            env.insert(k.to_string(), json!(v));
        }
    }
    env.insert(
        "EGGLOG_PARALLEL_FREE_JOIN_FORK_DEPTH".into(),
        json!(*rng.pick(&["0", "1", "2", "5"])),
    );
    env.insert(
        "EGGLOG_PARALLEL_ACTION_BATCH_SIZE".into(),
        json!(*rng.pick(&["1", "2", "2", "8", "8192"])),
    );
    case.cfg.insert("env".into(), Value::Object(env));
}

pub fn parse_op(op: &str) -> Option<Sexp> {
    sexp::parse(op).ok()
}

/// F3: algorithm-switch thresholds ("buggify" knobs), drawn per run.
pub fn draw_knobs(case: &mut Case, rng: &mut crate::rng::Rng) {
    let mut m = serde_json::Map::new();
    let table: [(&str, &[u64]); 6] = [
        ("table_incremental_rebuild", &[0, 1]),
        ("container_incremental_rebuild", &[0, 1]),
        ("rehash_min_stale", &[0, 1, 4]),
        ("rebuild_step_size", &[1, 2, 7]),
        ("stage_resort_threshold", &[0, 1, 4]),
        ("trie_inline_max", &[0, 1, 3]),
    ];
    for (k, vals) in table {
        if rng.chance(1, 2) {
            m.insert(k.to_string(), json!(*rng.pick(vals)));
        }
    }
    case.cfg.insert("knobs".into(), Value::Object(m));
}
