//! C12 — every provable fact gets a proof the checker accepts, and only those.
//! First half: `(prove f)` succeeds exactly when the plain engine's `(check f)`
//! does, never panics (prove_exists checks the proof before and after
//! simplification and panics if the checker refuses it), and the returned
//! proof passes an independent structural walk. Second half (hook H9): the same
//! proof re-checked against an altered program, or after a single-point
//! alteration of the proof object, must be rejected.

use super::modelcheck::row_terms;
use super::{Budget, Property, Tier};
use crate::case::{Case, CaseResult};
use crate::exec::{Engine, Mode};
use crate::rng::Rng;
use crate::wgen::{Features, Gen, to_text};
use egglog::proof::{Justification, ProgramAlteration, ProofId, ProofStore};
use egglog::{CommandOutput, Term};

pub struct C12;

/// Independent structural check of a proof object through its public API.
fn walk(store: &ProofStore, root: ProofId) -> Result<usize, String> {
    let dag = store.term_dag();
    let nodes = store.verif_reachable(root);
    for id in &nodes {
        let p = store.get(*id);
        match p.justification() {
            Justification::Trans(a, b) => {
                let (pa, pb) = (store.get(*a), store.get(*b));
                if pa.rhs() != pb.lhs() {
                    return Err(format!("Trans at {id:?}: middle terms differ"));
                }
                if p.lhs() != pa.lhs() || p.rhs() != pb.rhs() {
                    return Err(format!("Trans at {id:?}: proposition is not lhs(a) = rhs(b)"));
                }
            }
            Justification::Sym(a) => {
                let pa = store.get(*a);
                if p.lhs() != pa.rhs() || p.rhs() != pa.lhs() {
                    return Err(format!("Sym at {id:?}: proposition is not the flipped premise"));
                }
            }
            Justification::Congr { proof, child_index, child_proof } => {
                let (base, child) = (store.get(*proof), store.get(*child_proof));
                let Term::App(f, args) = dag.get(base.rhs()) else {
                    return Err(format!("Congr at {id:?}: base right-hand side is not an application"));
                };
                if *child_index >= args.len() {
                    return Err(format!("Congr at {id:?}: child index {child_index} out of range"));
                }
                if args[*child_index] != child.lhs() {
                    return Err(format!("Congr at {id:?}: child proof does not start at argument {child_index}"));
                }
                if p.lhs() != base.lhs() {
                    return Err(format!("Congr at {id:?}: left-hand side changed"));
                }
                let Term::App(g, args2) = dag.get(p.rhs()) else {
                    return Err(format!("Congr at {id:?}: conclusion is not an application"));
                };
                if g != f || args2.len() != args.len() {
                    return Err(format!("Congr at {id:?}: head or arity changed"));
                }
                for (i, (x, y)) in args.iter().zip(args2.iter()).enumerate() {
                    let want = if i == *child_index { child.rhs() } else { *x };
                    if *y != want {
                        return Err(format!("Congr at {id:?}: argument {i} of the conclusion is wrong"));
                    }
                }
            }
            Justification::Rule { premise_proofs, .. } => {
                let _ = premise_proofs;
            }
            Justification::MergeFn { .. } | Justification::Fiat | Justification::ContainerNormalize { .. } | Justification::Eval => {}
        }
    }
    Ok(nodes.len())
}

impl Property for C12 {
    fn id(&self) -> &'static str {
        "C12"
    }
    fn level(&self) -> &'static str {
        "exploration"
    }
    fn technique(&self) -> &'static str {
        "deterministic simulation of seeded histories in proof mode next to the plain engine; true and false facts asked through (prove ..); every returned proof walked structurally and then subjected to fault injection: the checking program altered (used rule dropped, top-level facts dropped) and single-point alterations of the proof object, which the checker must reject"
    }
    fn rule(&self) -> &'static str {
        "case = seeded supported program run in lock-step on EGraph::new_with_proofs() and on the plain engine; then 6-14 facts over the terms of the database (equalities between terms of one class and of different classes, constructor and relation facts that hold and that do not): on a clone of the proof engine (prove f) must succeed iff (check f) succeeds on the plain engine (agreement is only required when the history has no subsume) and must never panic (prove checks its proof before and after simplification). Each returned proof must pass an independent structural walk (Trans chains, Sym flips, Congr indices and children) and be accepted by the checker against the unaltered program; re-checked without a rule it uses, without the top-level facts, or after swapping Trans operands / moving a Congr index / dropping a rule premise / substituting a term, it must be rejected. Non-trivial = >= 2 proofs obtained and >= 2 alterations rejected; distinct = distinct programs."
    }
    fn assumptions(&self) -> Vec<String> {
        vec![
            "alterations are only applied where they are certainly unjustified (Trans whose proposition is not t = t, Congr over distinct arguments, rules with at least one premise)".into(),
            "dropping all top-level facts is expected to invalidate a proof only if it has a Fiat leaf over non-literal terms".into(),
        ]
    }
    fn budget(&self, tier: Tier) -> Budget {
        match tier {
            Tier::Quick => Budget { cases: 1500, wall_s: 150 },
            Tier::Thorough => Budget { cases: 40_000, wall_s: 2400 },
        }
    }
    fn timeout_s(&self) -> u64 {
        90
    }
    fn generate(&self, seed: u64, _index: u64, _tier: Tier) -> Case {
        let mut case = Case::new("C12", seed);
        let root = Rng::new(seed);
        let mut cfg_rng = root.fork("cfg");
        let mut f = Features::draw(&mut cfg_rng);
        f.containers = false;
        f.set_funcs = false;
        f.bool_funcs = false;
        f.nomerge = false;
        f.subsume = cfg_rng.chance(1, 4);
        f.delete = false;
        f.pushpop = cfg_rng.chance(1, 6);
        f.prints = false;
        f.extract = false;
        f.checks = false;
        f.rewrites = true;
        f.max_cmds = 4 + cfg_rng.below(5);
        f.max_run = 1 + cfg_rng.below(2);
        f.max_rules = 1 + cfg_rng.below(3);
        let mut g = Gen::new(root.fork("workload"), f);
        let mut ops = to_text(&g.gen_decls());
        ops.extend(to_text(&g.gen_session()));
        for _ in 0..1 + cfg_rng.below(3) {
            let s = g.rng.below(g.sig.sorts.len());
            let a = g.ground_term(s, 2);
            let b = g.ground_term(s, 2);
            ops.push(format!("(union {a} {b})"));
            ops.push(g.gen_run().to_string());
        }
        case.ops = ops;
        case
    }
    fn check(&self, case: &Case) -> CaseResult {
        let mut res = CaseResult::new();
        let mut plain = Engine::new(Mode::Plain, 1);
        let mut pe = Engine::new(Mode::Proofs, 1);
        let has_subsume = case.ops.iter().any(|o| o.contains("subsume"));
        for op in &case.ops {
            let a = plain.run(op);
            let b = pe.run(op);
            res.log(&format!("{op} => {} / {}", a.kind(), b.kind()));
            if a.is_panic() {
                res.inconclusive("plain engine panic (C09 territory)");
                return res;
            }
            if b.is_panic() {
                res.violation("proof-mode-panic", format!("{op}: {}", b.brief()));
                return res;
            }
            if a.is_ok() != b.is_ok() {
                if b.kind() == "UnsupportedProofCommand" {
                    res.inconclusive("program not supported by the proof encoder");
                } else {
                    res.inconclusive("plain and proof mode disagree on a command (C11 territory)");
                }
                return res;
            }
        }
        // facts over the database
        let Ok((raw, dump)) = plain.dump() else { return res };
        if dump.rows > 250 {
            res.inconclusive("size bound");
            return res;
        }
        let terms = row_terms(&raw);
        if terms.is_empty() {
            res.inconclusive("empty database");
            return res;
        }
        let mut rng = Rng::new(case.seed).fork("facts");
        let mut facts: Vec<String> = Vec::new();
        for _ in 0..6 + rng.below(9) {
            let (a, ca) = terms[rng.below(terms.len())].clone();
            match rng.below(4) {
                0 => facts.push(a),
                1 => {
                    // same class
                    let same: Vec<&(String, (String, u64))> = terms.iter().filter(|(_, c)| *c == ca).collect();
                    facts.push(format!("(= {a} {})", same[rng.below(same.len())].0));
                }
                2 => {
                    // same sort, any class
                    let ss: Vec<&(String, (String, u64))> = terms.iter().filter(|(_, c)| c.0 == ca.0).collect();
                    facts.push(format!("(= {a} {})", ss[rng.below(ss.len())].0));
                }
                _ => {
                    // a term that is (probably) absent: wrap in any constructor row's head
                    let (b, _) = terms[rng.below(terms.len())].clone();
                    if let Ok(s) = crate::sexp::parse(&b) {
                        if let crate::sexp::Sexp::List(mut v) = s {
                            if v.len() >= 2 {
                                if let Ok(t) = crate::sexp::parse(&a) {
                                    let k = 1 + rng.below(v.len() - 1);
                                    v[k] = t;
                                    facts.push(crate::sexp::Sexp::List(v).to_string());
                                }
                            }
                        }
                    }
                }
            }
        }
        let mut proofs_obtained = 0u64;
        let mut rejected = 0u64;
        for f in &facts {
            let expect = plain.run(&format!("(check {f})"));
            if !expect.is_ok() && expect.kind() != "Check" {
                continue; // ill-typed combination
            }
            let mut probe = pe.clone();
            let r = probe.run_raw(&format!("(prove {f})"));
            res.count("facts_asked", 1);
            let outs = match r {
                Err(p) => {
                    // the recorded finding needs a rule premise that looks a function up, and unions
                    let lookup_premise = case.ops.iter().any(|o| o.starts_with("(rule") && o.contains("(= v") && o.contains("(f"));
                    let unions = case.ops.iter().any(|o| o.contains("union") || o.starts_with("(rewrite") || o.starts_with("(birewrite"));
                    let mut tag = String::new();
                    if lookup_premise && unions {
                        tag.push_str(" [history has a function-lookup premise and unions]");
                    }
                    if has_subsume {
                        tag.push_str(" [history uses subsume]");
                    }
                    res.violation("prove-panic", format!("(prove {f}): {p}{tag}"));
                    return res;
                }
                Ok(Err(e)) => {
                    res.log(&format!("(prove {f}) => err"));
                    if expect.is_ok() && !has_subsume {
                        res.violation(
                            "prove-fails-but-check-holds",
                            format!("(prove {f}): {} while (check {f}) succeeds on the plain engine", e.to_string().lines().last().unwrap_or("").chars().take(160).collect::<String>()),
                        );
                        return res;
                    }
                    res.count("false_facts_refused", 1);
                    continue;
                }
                Ok(Ok(outs)) => outs,
            };
            res.log(&format!("(prove {f}) => ok"));
            if !expect.is_ok() && !has_subsume {
                res.violation("prove-succeeds-but-check-fails", format!("(prove {f}) succeeded while (check {f}) fails on the plain engine"));
                return res;
            }
            for o in outs {
                let CommandOutput::ProveExists { proof_store, proof_id } = o else { continue };
                proofs_obtained += 1;
                res.count("proofs_obtained", 1);
                match walk(&proof_store, proof_id) {
                    Ok(n) => res.count("proof_nodes_walked", n as u64),
                    Err(why) => {
                        res.violation("proof-structure", format!("(prove {f}): {why}"));
                        return res;
                    }
                }
                // accepted against the unaltered program
                if let Err(e) = probe.eg.verif_check_proof(&proof_store, proof_id, &ProgramAlteration::None) {
                    res.violation("checker-rejects-its-own-proof", format!("(prove {f}): {e}"));
                    return res;
                }
                // ---- F9: altered program
                let nodes = proof_store.verif_reachable(proof_id);
                let mut used_rules: Vec<String> = Vec::new();
                let mut has_fiat_nonlit = false;
                for n in &nodes {
                    let p = proof_store.get(*n);
                    match p.justification() {
                        Justification::Rule { name, .. } => {
                            if !used_rules.contains(name) {
                                used_rules.push(name.clone());
                            }
                        }
                        Justification::Fiat => {
                            if !matches!(proof_store.term_dag().get(p.lhs()), Term::Lit(_)) {
                                has_fiat_nonlit = true;
                            }
                        }
                        _ => {}
                    }
                }
                for name in used_rules.iter().take(3) {
                    res.count("fault:rule_dropped", 1);
                    match probe.eg.verif_check_proof(&proof_store, proof_id, &ProgramAlteration::DropRule(name.clone())) {
                        Err(_) => rejected += 1,
                        Ok(()) => {
                            res.violation("checker-accepts-without-used-rule", format!("(prove {f}): the proof uses rule {name:?} but is accepted by a program without it"));
                            return res;
                        }
                    }
                }
                if has_fiat_nonlit {
                    res.count("fault:facts_dropped", 1);
                    match probe.eg.verif_check_proof(&proof_store, proof_id, &ProgramAlteration::DropActions) {
                        Err(_) => rejected += 1,
                        Ok(()) => {
                            res.violation("checker-accepts-without-facts", format!("(prove {f}): the proof has a Fiat leaf over a non-literal term but is accepted by a program without any top-level action"));
                            return res;
                        }
                    }
                }
                // ---- F9: altered proof object
                for kind in 0..4u32 {
                    let cands: Vec<ProofId> = nodes.clone();
                    let start = rng.below(cands.len());
                    for k in 0..cands.len() {
                        let node = cands[(start + k) % cands.len()];
                        let mut altered = proof_store.clone();
                        let Some(what) = altered.verif_mutate(node, kind) else { continue };
                        res.count(&format!("fault:proof_alteration_{kind}"), 1);
                        match probe.eg.verif_check_proof(&altered, proof_id, &ProgramAlteration::None) {
                            Err(_) => rejected += 1,
                            Ok(()) => {
                                res.violation("checker-accepts-altered-proof", format!("(prove {f}): {what}, and the checker still accepts the proof"));
                                return res;
                            }
                        }
                        break;
                    }
                }
            }
        }
        res.count("alterations_rejected", rejected);
        res.nontrivial = proofs_obtained >= 2 && rejected >= 2;
        res.state(dump.hash());
        res
    }
}
