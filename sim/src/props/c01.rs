//! C01 — equality is exactly the congruence closure of what was asserted.
//! Monotone histories run on the engine and on the reference model in
//! lock-step; dumps (which contain the equality partition over every term
//! either side holds) must agree after every command and iteration, and
//! sampled pairs of terms are asked through `(check (= a b))`, positive and
//! negative.

use super::common::*;
use super::modelcheck::{Opts, run_lockstep};
use super::{Budget, Property, Tier};
use crate::case::{Case, CaseResult};
use crate::rng::Rng;
use crate::sexp::Sexp;
use crate::wgen::{Features, Gen, Ty, to_text};

pub struct C01;

/// Probe rules: one per (sampled) constructor, copying its matches into a
/// fresh relation — rule matching modulo equality, observed through the dump.
pub fn probe_ops(g: &mut Gen, n: usize) -> Vec<String> {
    let mut ops = vec!["(ruleset probe__)".to_string()];
    let ctors: Vec<crate::wgen::Ctor> = g
        .sig
        .ctors
        .iter()
        .filter(|c| !c.args.is_empty() && c.args.iter().all(|t| !matches!(t, Ty::Cont(_))))
        .cloned()
        .collect();
    if ctors.is_empty() {
        return vec![];
    }
    for k in 0..n.min(ctors.len()) {
        let c = ctors[(g.rng.below(ctors.len()) + k) % ctors.len()].clone();
        let rel = format!("P{k}__");
        let sorts: Vec<String> = c.args.iter().map(|t| g.ty_name(t)).collect();
        let vars: Vec<String> = (0..c.args.len()).map(|i| format!("p{i}")).collect();
        ops.push(format!("(relation {rel} ({}))", sorts.join(" ")));
        ops.push(format!(
            "(rule (({} {})) (({rel} {})) :ruleset probe__)",
            c.name,
            vars.join(" "),
            vars.join(" ")
        ));
    }
    ops.push("(run probe__ 1)".to_string());
    ops
}

impl Property for C01 {
    fn id(&self) -> &'static str {
        "C01"
    }
    fn level(&self) -> &'static str {
        "exploration"
    }
    fn technique(&self) -> &'static str {
        "deterministic simulation: seeded monotone histories executed in lock-step on the engine (serial, and threaded under the token scheduler with thresholds drawn per run) and on a naive congruence-closure reference model; refinement check after every command plus positive and negative pairwise equality queries"
    }
    fn rule(&self) -> &'static str {
        "case = seeded program in the monotone fragment (constructors, relations, lattice functions, rules, rewrites, birewrites with guards, top-level unions/sets/lets, runs and schedules, push/pop) ending with probe rules that copy constructor matches into fresh relations. After every command and every single iteration the engine's id-free dump must equal the model's (the dump contains the equality partition over all terms either side holds); at sampled points and at the end, pairs of existing terms are asked through (check (= a b)): it must succeed iff the model's congruence closure has them in one class (negative answers are asked explicitly). Non-trivial = some iteration updated the database and >= 3 rows; distinct = distinct operation lists."
    }
    fn assumptions(&self) -> Vec<String> {
        vec![
            "the reference model covers the generated fragment only; a command outside it, a type-level disagreement or a size bound makes the run inconclusive (counted)".into(),
            "after a run-time failure of a command nothing is compared (no promised partial effect); error paths are C04/C09's".into(),
            "term pairs are drawn from the terms present in the database (depth bounded by the history), not from the whole Herbrand universe".into(),
        ]
    }
    fn budget(&self, tier: Tier) -> Budget {
        match tier {
            Tier::Quick => Budget { cases: 8000, wall_s: 120 },
            Tier::Thorough => Budget { cases: 200_000, wall_s: 1800 },
        }
    }
    fn generate(&self, seed: u64, index: u64, _tier: Tier) -> Case {
        let mut case = Case::new("C01", seed);
        let root = Rng::new(seed);
        let mut cfg_rng = root.fork("cfg");
        let mut f = Features::draw(&mut cfg_rng);
        f.rewrites = true;
        f.pushpop = cfg_rng.chance(1, 6);
        f.prints = false;
        let mut g = Gen::new(root.fork("workload"), f);
        let mut ops = to_text(&g.gen_decls());
        ops.extend(to_text(&g.gen_session()));
        // a few extra unions late in the history: chains of congruences
        for _ in 0..cfg_rng.below(3) {
            let s = g.rng.below(g.sig.sorts.len());
            let t1 = g.ground_term(s, 2);
            let t2 = g.ground_term(s, 2);
            ops.push(Sexp::call("union", vec![t1, t2]).to_string());
        }
        ops.extend(probe_ops(&mut g, 2));
        case.ops = ops;
        if index % 10 == 9 {
            draw_threaded(&mut case, &mut cfg_rng);
        }
        if cfg_rng.chance(1, 2) {
            draw_knobs(&mut case, &mut cfg_rng);
        }
        case
    }
    fn check(&self, case: &Case) -> CaseResult {
        let mut res = CaseResult::new();
        run_lockstep(case, &mut res, &Opts::default());
        res
    }
}
