//! C19 — the thread pool and shared-memory helpers are safe under any
//! interleaving. Every scenario runs the *real* `egglog_concurrency` code under
//! the token scheduler with every hook site eligible; the scheduler decides
//! deadlock, the scenario checks exactly-once / no torn read / nothing lost.

use super::common::*;
use super::{Budget, Isolation, Property, Tier};
use crate::case::{Case, CaseResult};
use crate::rng::Rng;
use crate::sexp::{self, Sexp};
use egglog_concurrency::{
    ConcurrentVec, Notification, NotificationList, ParallelVecWriter, ReadOptimizedLock,
    ResettableOnceLock, SharedArena, ThreadPool, verif,
};
use serde_json::json;
use std::panic::{AssertUnwindSafe, catch_unwind};
use std::sync::Arc;
use std::sync::atomic::{AtomicBool, AtomicU64, AtomicUsize, Ordering};

pub struct C19;

// ---------------------------------------------------------------------------
// spawn trees

#[derive(Clone, Debug)]
enum Node {
    /// plain task with children spawned on the same scope
    Task { id: usize, panics: bool, kids: Vec<Node> },
    /// task that opens a nested scope (blocking wait inside a worker)
    Nested { id: usize, kids: Vec<Node> },
}

fn gen_node(rng: &mut Rng, depth: usize, budget: &mut usize, allow_panic: bool) -> Sexp {
    *budget = budget.saturating_sub(1);
    let nk = if depth == 0 || *budget == 0 { 0 } else { rng.weighted(&[3, 3, 2, 1]) };
    let mut kids = Vec::new();
    for _ in 0..nk {
        if *budget == 0 {
            break;
        }
        kids.push(gen_node(rng, depth - 1, budget, allow_panic));
    }
    let head = if rng.chance(1, 3) {
        "nested"
    } else if allow_panic && rng.chance(1, 12) {
        "ptask"
    } else {
        "task"
    };
    Sexp::call(head, kids)
}

fn parse_node(s: &Sexp, next: &mut usize) -> Option<Node> {
    let id = *next;
    *next += 1;
    let kids: Vec<Node> = s.args().iter().filter_map(|k| parse_node(k, next)).collect();
    match s.head()? {
        "task" => Some(Node::Task { id, panics: false, kids }),
        "ptask" => Some(Node::Task { id, panics: true, kids }),
        "nested" => Some(Node::Nested { id, kids }),
        _ => None,
    }
}

fn run_node<'s>(scope: &egglog_concurrency::Scope<'s>, node: &'s Node, counts: &'s [AtomicUsize]) {
    match node {
        Node::Task { id, panics, kids } => {
            scope.spawn(move |sc| {
                counts[*id].fetch_add(1, Ordering::SeqCst);
                for k in kids {
                    run_node(sc, k, counts);
                }
                if *panics {
                    panic!("injected task panic {id}");
                }
            });
        }
        Node::Nested { id, kids } => {
            scope.spawn(move |_| {
                counts[*id].fetch_add(1, Ordering::SeqCst);
                // a scope opened inside a worker: the worker helps while it waits
                egglog_concurrency::scope(|inner| {
                    for k in kids {
                        run_node(inner, k, counts);
                    }
                });
                // every transitive child of the nested scope has run by now
                let mut stack: Vec<&Node> = kids.iter().collect();
                while let Some(n) = stack.pop() {
                    let (i, ks) = match n {
                        Node::Task { id, kids, .. } => (*id, kids),
                        Node::Nested { id, kids } => (*id, kids),
                    };
                    if counts[i].load(Ordering::SeqCst) != 1 {
                        NESTED_EARLY.store(true, Ordering::SeqCst);
                    }
                    stack.extend(ks.iter());
                }
            });
        }
    }
}

static NESTED_EARLY: AtomicBool = AtomicBool::new(false);

fn has_panic(n: &Node) -> bool {
    match n {
        Node::Task { panics, kids, .. } => *panics || kids.iter().any(has_panic),
        Node::Nested { kids, .. } => kids.iter().any(has_panic),
    }
}

fn scenario_pool(ops: &[Sexp], res: &mut CaseResult) {
    let mut pool: Option<ThreadPool> = None;
    for op in ops {
        match op.head() {
            Some("pool") => {
                let n = op.args().first().and_then(|x| x.as_int()).unwrap_or(2).clamp(1, 16);
                drop(pool.take()); // drop joins the workers (in simulated time)
                pool = Some(ThreadPool::new(n as usize));
                res.count("pools", 1);
            }
            Some("scope") => {
                let Some(p) = &pool else { continue };
                let mut next = 0;
                let roots: Vec<Node> =
                    op.args().iter().filter_map(|k| parse_node(k, &mut next)).collect();
                let counts: Vec<AtomicUsize> = (0..next).map(|_| AtomicUsize::new(0)).collect();
                NESTED_EARLY.store(false, Ordering::SeqCst);
                let expect_panic = roots.iter().any(has_panic);
                let r = catch_unwind(AssertUnwindSafe(|| {
                    p.scope(|sc| {
                        for n in &roots {
                            run_node(sc, n, &counts);
                        }
                    })
                }));
                // first line after the return: every task has run exactly once
                let bad: Vec<(usize, usize)> = counts
                    .iter()
                    .enumerate()
                    .map(|(i, c)| (i, c.load(Ordering::SeqCst)))
                    .filter(|(_, c)| *c != 1)
                    .collect();
                crate::exec::take_panic();
                res.count("tasks", next as u64);
                res.log(&format!("scope tasks={next} ok={} bad={bad:?}", r.is_ok()));
                if !bad.is_empty() {
                    res.violation(
                        "scope-returned-early",
                        format!("tasks not run exactly once when scope returned: {bad:?}"),
                    );
                    return;
                }
                if NESTED_EARLY.load(Ordering::SeqCst) {
                    res.violation(
                        "nested-scope-returned-early",
                        "a nested scope returned before all of its tasks had run".into(),
                    );
                    return;
                }
                if expect_panic != r.is_err() {
                    res.violation(
                        "panic-not-reported",
                        format!("task panicked={expect_panic} but scope returned err={}", r.is_err()),
                    );
                    return;
                }
                if expect_panic {
                    res.count("fault:task_panic", 1);
                }
            }
            Some("chain") => {
                // `n` concurrent chains of nested scopes, each `d` levels deep: deeper than
                // the inline-help bound times the number of workers, so that every primary
                // worker ends up blocked and only backup workers keep the queue moving
                let Some(p) = &pool else { continue };
                let d = op.args().first().and_then(|x| x.as_int()).unwrap_or(70).clamp(1, 400) as usize;
                let n = op.args().get(1).and_then(|x| x.as_int()).unwrap_or(1).clamp(1, 4) as usize;
                let hits = AtomicUsize::new(0);
                fn go(depth: usize, hits: &AtomicUsize) {
                    hits.fetch_add(1, Ordering::SeqCst);
                    if depth == 0 {
                        return;
                    }
                    egglog_concurrency::scope(|sc| {
                        sc.spawn(move |_| go(depth - 1, hits));
                    });
                }
                p.scope(|sc| {
                    for _ in 0..n {
                        sc.spawn(|_| go(d, &hits));
                    }
                });
                let h = hits.load(Ordering::SeqCst);
                res.count("chains", n as u64);
                res.log(&format!("chain {d} x{n} hits={h}"));
                if h != n * (d + 1) {
                    res.violation("chain-incomplete", format!("{n} chains of depth {d}: {h} levels ran"));
                    return;
                }
            }
            Some("pfe") => {
                let Some(p) = &pool else { continue };
                let n = op.args().first().and_then(|x| x.as_int()).unwrap_or(8).clamp(0, 64) as usize;
                let counts: Vec<AtomicUsize> = (0..n).map(|_| AtomicUsize::new(0)).collect();
                p.parallel_for_each(0..n, |i| {
                    counts[i].fetch_add(1, Ordering::SeqCst);
                });
                let bad = counts.iter().filter(|c| c.load(Ordering::SeqCst) != 1).count();
                res.log(&format!("pfe {n} bad={bad}"));
                if bad != 0 {
                    res.violation("pfe-not-exactly-once", format!("{bad} of {n} items"));
                    return;
                }
            }
            _ => {}
        }
    }
    drop(pool);
}

// ---------------------------------------------------------------------------
// helpers

fn join_all<T>(hs: Vec<std::thread::JoinHandle<T>>) -> Vec<std::thread::Result<T>> {
    hs.into_iter()
        .map(|h| {
            verif::sim_join(&h);
            h.join()
        })
        .collect()
}

fn scenario_rolock(op: &Sexp, res: &mut CaseResult) {
    let a = op.args();
    let writers = a.first().and_then(|x| x.as_int()).unwrap_or(2).clamp(0, 4) as u64;
    let readers = a.get(1).and_then(|x| x.as_int()).unwrap_or(2).clamp(0, 4) as u64;
    let k = a.get(2).and_then(|x| x.as_int()).unwrap_or(2).clamp(1, 4) as u64;
    let lock = Arc::new(ReadOptimizedLock::new((0u64, !0u64)));
    let in_write = Arc::new(AtomicBool::new(false));
    let torn = Arc::new(AtomicU64::new(0));
    let overlap = Arc::new(AtomicU64::new(0));
    let mut hs = Vec::new();
    for w in 0..writers {
        let (lock, in_write, overlap) = (lock.clone(), in_write.clone(), overlap.clone());
        hs.push(verif::spawn(move || {
            for i in 0..k {
                let mut g = lock.lock();
                if in_write.swap(true, Ordering::SeqCst) {
                    overlap.fetch_add(1, Ordering::SeqCst);
                }
                let x = (w + 1) * 1000 + i;
                g.0 = x;
                verif::yield_point(verif::site::USER); // between the two words
                g.1 = !x;
                in_write.store(false, Ordering::SeqCst);
                drop(g);
                verif::yield_point(verif::site::USER2);
            }
        }));
    }
    for _ in 0..readers {
        let (lock, in_write, torn, overlap) =
            (lock.clone(), in_write.clone(), torn.clone(), overlap.clone());
        hs.push(verif::spawn(move || {
            for _ in 0..k {
                let g = lock.read();
                let a = g.0;
                verif::yield_point(verif::site::USER); // hold the guard across a hand-over
                if in_write.load(Ordering::SeqCst) {
                    overlap.fetch_add(1 << 32, Ordering::SeqCst);
                }
                let b = g.1;
                if b != !a {
                    torn.fetch_add(1, Ordering::SeqCst);
                }
                drop(g);
                verif::yield_point(verif::site::USER2);
            }
        }));
    }
    let rs = join_all(hs);
    let final_ok = {
        let g = lock.read();
        g.1 == !g.0
    };
    let t = torn.load(Ordering::SeqCst);
    let o = overlap.load(Ordering::SeqCst);
    res.log(&format!("rolock w={writers} r={readers} k={k} torn={t} overlap={o}"));
    if rs.iter().any(|r| r.is_err()) {
        res.violation("rolock-panic", "a reader/writer thread panicked".into());
    } else if t != 0 || !final_ok {
        res.violation("torn-read", format!("{t} readers saw a writer's partial update"));
    } else if o & 0xffff_ffff != 0 {
        res.violation("writers-overlap", format!("{} overlapping writers", o & 0xffff_ffff));
    } else if o >> 32 != 0 {
        res.violation("reader-during-write", format!("{} readers held a guard during a write", o >> 32));
    }
}

fn scenario_cvec(op: &Sexp, res: &mut CaseResult) {
    let a = op.args();
    let pushers = a.first().and_then(|x| x.as_int()).unwrap_or(2).clamp(1, 4) as u64;
    let readers = a.get(1).and_then(|x| x.as_int()).unwrap_or(1).clamp(0, 3) as u64;
    let k = a.get(2).and_then(|x| x.as_int()).unwrap_or(3).clamp(1, 6) as u64;
    let cap = a.get(3).and_then(|x| x.as_int()).unwrap_or(1).clamp(1, 8) as usize;
    let v: Arc<ConcurrentVec<u64>> = Arc::new(ConcurrentVec::with_capacity(cap));
    let bad_read = Arc::new(AtomicU64::new(0));
    let mut hs = Vec::new();
    for p in 0..pushers {
        let v = v.clone();
        let bad = bad_read.clone();
        hs.push(verif::spawn(move || {
            for i in 0..k {
                let val = (p + 1) * 100 + i;
                let idx = v.push(val);
                let r = v.read();
                if r.get(idx).copied() != Some(val) {
                    bad.fetch_add(1, Ordering::SeqCst);
                }
            }
        }));
    }
    for _ in 0..readers {
        let v = v.clone();
        let bad = bad_read.clone();
        hs.push(verif::spawn(move || {
            let mut seen: Vec<u64> = Vec::new();
            for _ in 0..k {
                let r = v.read();
                let cur: Vec<u64> = r.to_vec();
                drop(r);
                // published prefix is stable and made of pushed values
                if cur.len() < seen.len() || cur[..seen.len()] != seen[..] {
                    bad.fetch_add(1, Ordering::SeqCst);
                }
                if cur.iter().any(|x| *x < 100 || *x % 100 >= 6) {
                    bad.fetch_add(1, Ordering::SeqCst);
                }
                seen = cur;
                verif::yield_point(verif::site::USER);
            }
        }));
    }
    let rs = join_all(hs);
    let mut all: Vec<u64> = v.read().to_vec();
    all.sort();
    let mut want: Vec<u64> = (0..pushers).flat_map(|p| (0..k).map(move |i| (p + 1) * 100 + i)).collect();
    want.sort();
    let b = bad_read.load(Ordering::SeqCst);
    res.log(&format!("cvec p={pushers} r={readers} k={k} cap={cap} len={} bad={b}", all.len()));
    if rs.iter().any(|r| r.is_err()) {
        res.violation("cvec-panic", "a thread panicked".into());
    } else if all != want {
        res.violation("push-lost", format!("have {all:?} want {want:?}"));
    } else if b != 0 {
        res.violation("cvec-bad-read", format!("{b} inconsistent reads"));
    }
}

/// `resize_with` from several threads (the pattern NotificationList uses), and
/// the mixed push + resize_with pattern the public API also allows.
fn scenario_cvec_resize(op: &Sexp, res: &mut CaseResult) {
    let a = op.args();
    let threads = a.first().and_then(|x| x.as_int()).unwrap_or(2).clamp(1, 4) as usize;
    let maxlen = a.get(1).and_then(|x| x.as_int()).unwrap_or(9).clamp(1, 40) as usize;
    let pre_push = a.get(2).and_then(|x| x.as_int()).unwrap_or(0).clamp(0, 12) as usize;
    const FILL: u64 = 0xABCD_EF01_2345_6789;
    let v: Arc<ConcurrentVec<u64>> = Arc::new(ConcurrentVec::with_capacity(1));
    for i in 0..pre_push {
        v.push(FILL ^ (i as u64 + 1));
    }
    let mut hs = Vec::new();
    for t in 0..threads {
        let v = v.clone();
        hs.push(verif::spawn(move || {
            let n = 1 + (maxlen * (t + 1)) / threads;
            v.resize_with(n, || FILL);
            let r = v.read();
            r.len() >= n
        }));
    }
    let rs = join_all(hs);
    let r = v.read();
    let want_len = (1 + maxlen).max(pre_push);
    let mut bad = Vec::new();
    for (i, x) in r.iter().enumerate() {
        let ok = if i < pre_push { *x == FILL ^ (i as u64 + 1) } else { *x == FILL };
        if !ok {
            bad.push(i);
        }
    }
    res.log(&format!("cvec-resize t={threads} max={maxlen} pre={pre_push} len={} bad={bad:?}", r.len()));
    if rs.iter().any(|x| !matches!(x, Ok(true))) {
        res.violation("resize-short", "resize_with returned before the length was reached".into());
    } else if r.len() != want_len {
        res.violation("resize-len", format!("len {} want {want_len}", r.len()));
    } else if !bad.is_empty() {
        res.violation(
            if pre_push > 0 { "uninit-slot-after-push-then-resize" } else { "uninit-slot" },
            format!("slots {bad:?} do not hold the fill value (pre_push={pre_push}, len={})", r.len()),
        );
    }
}

fn scenario_pwriter(op: &Sexp, res: &mut CaseResult) {
    let a = op.args();
    let threads = a.first().and_then(|x| x.as_int()).unwrap_or(2).clamp(1, 4) as u64;
    let n0 = a.get(1).and_then(|x| x.as_int()).unwrap_or(2).clamp(0, 8) as u64;
    let k = a.get(2).and_then(|x| x.as_int()).unwrap_or(3).clamp(1, 9) as u64;
    let rounds = a.get(3).and_then(|x| x.as_int()).unwrap_or(2).clamp(1, 3) as u64;
    let init: Vec<u64> = (0..n0).map(|i| 7000 + i).collect();
    let w = Arc::new(ParallelVecWriter::new(init.clone()));
    let mut hs = Vec::new();
    for t in 0..threads {
        let w = w.clone();
        hs.push(verif::spawn(move || {
            let mut ranges = Vec::new();
            for r in 0..rounds {
                let len = 1 + (k + t + r) % k.max(1);
                let base = (t + 1) * 10_000 + r * 100;
                let start = if (t + r) % 2 == 0 {
                    w.write_contents((0..len as usize).map(|i| base + i as u64))
                } else {
                    let items: Vec<u64> = (0..len).map(|i| base + i).collect();
                    w.write_slice(&items)
                };
                // the prefix that existed at creation stays readable during writes
                let mut ok = true;
                for i in 0..n0 {
                    if w.with_index(i as usize, |x| *x) != 7000 + i {
                        ok = false;
                    }
                }
                ranges.push((start, len, base, ok));
            }
            ranges
        }));
    }
    let rs = join_all(hs);
    let Ok(w) = Arc::try_unwrap(w) else {
        res.violation("pwriter-leak", "writer still shared after join".into());
        return;
    };
    let out = w.finish();
    let mut total = n0;
    let mut problems = Vec::new();
    if out[..n0 as usize] != init[..] {
        problems.push("initial prefix damaged".to_string());
    }
    let mut covered = vec![false; out.len()];
    for r in rs {
        match r {
            Err(_) => problems.push("thread panicked".into()),
            Ok(ranges) => {
                for (start, len, base, ok) in ranges {
                    total += len;
                    if !ok {
                        problems.push("prefix read wrong during writes".into());
                    }
                    for i in 0..len {
                        let idx = start + i as usize;
                        if out.get(idx).copied() != Some(base + i) {
                            problems.push(format!("slot {idx} want {} have {:?}", base + i, out.get(idx)));
                        } else if covered[idx] {
                            problems.push(format!("slot {idx} handed out twice"));
                        } else {
                            covered[idx] = true;
                        }
                    }
                }
            }
        }
    }
    if out.len() as u64 != total {
        problems.push(format!("final length {} want {total}", out.len()));
    }
    res.log(&format!("pwriter t={threads} n0={n0} k={k} len={} problems={}", out.len(), problems.len()));
    if !problems.is_empty() {
        res.violation("ranged-write-lost", problems[..problems.len().min(3)].join("; "));
    }
}

fn scenario_nlist(op: &Sexp, res: &mut CaseResult) {
    use egglog_numeric_id::NumericId;
    #[derive(Clone, Copy, PartialEq, Eq, Hash, Debug, PartialOrd, Ord)]
    struct Id(u32);
    impl NumericId for Id {
        type Rep = u32;
        type Atomic = std::sync::atomic::AtomicU32;
        fn new(val: u32) -> Self {
            Id(val)
        }
        fn from_usize(index: usize) -> Self {
            Id(index as u32)
        }
        fn index(self) -> usize {
            self.0 as usize
        }
        fn rep(self) -> u32 {
            self.0
        }
    }
    let a = op.args();
    let threads = a.first().and_then(|x| x.as_int()).unwrap_or(2).clamp(1, 4) as u32;
    let span = a.get(1).and_then(|x| x.as_int()).unwrap_or(5).clamp(1, 140) as u32;
    let k = a.get(2).and_then(|x| x.as_int()).unwrap_or(3).clamp(1, 6) as u32;
    let list: NotificationList<Id> = NotificationList::default();
    for round in 0..2u32 {
        let mut hs = Vec::new();
        let mut want = std::collections::BTreeSet::new();
        for t in 0..threads {
            let ids: Vec<u32> = (0..k).map(|i| (t * 3 + i * 7 + round * 5) % span).collect();
            want.extend(ids.iter().copied());
            let list = list.clone();
            hs.push(verif::spawn(move || {
                for i in ids {
                    list.notify(Id(i));
                }
            }));
        }
        let rs = join_all(hs);
        let got: Vec<u32> = list.reset().iter().map(|x| x.0).collect();
        let mut sorted = got.clone();
        sorted.sort();
        let again = list.reset().len();
        res.log(&format!("nlist round={round} got={sorted:?}"));
        if rs.iter().any(|r| r.is_err()) {
            res.violation("nlist-panic", "notify panicked".into());
            return;
        }
        let wantv: Vec<u32> = want.into_iter().collect();
        if sorted != wantv {
            res.violation(
                "notification-lost-or-duplicated",
                format!("reset returned {sorted:?}, notified {wantv:?}"),
            );
            return;
        }
        if again != 0 {
            res.violation("reset-not-empty", format!("second reset returned {again} items"));
            return;
        }
    }
}

fn scenario_once(op: &Sexp, res: &mut CaseResult) {
    let a = op.args();
    let threads = a.first().and_then(|x| x.as_int()).unwrap_or(3).clamp(1, 4) as usize;
    let resets = a.get(1).and_then(|x| x.as_int()).unwrap_or(2).clamp(1, 3) as u64;
    let mut lock = Arc::new(ResettableOnceLock::new(0u64));
    let runs = Arc::new(AtomicU64::new(0));
    for round in 1..=resets {
        let mut hs = Vec::new();
        for _ in 0..threads {
            let runs = runs.clone();
            let l = lock.clone();
            hs.push(verif::spawn(move || {
                *l.get_or_update(|v| {
                    runs.fetch_add(1, Ordering::SeqCst);
                    verif::yield_point(verif::site::USER); // inside the update
                    *v = round * 11;
                })
            }));
        }
        let results: Vec<u64> = join_all(hs).into_iter().map(|r| r.unwrap_or(u64::MAX)).collect();
        let r = runs.load(Ordering::SeqCst);
        res.log(&format!("once round={round} results={results:?} runs={r}"));
        if r != round {
            res.violation("update-not-once", format!("update ran {r} times after {round} rounds"));
            return;
        }
        if results.iter().any(|v| *v != round * 11) {
            res.violation("once-stale-value", format!("{results:?} want {}", round * 11));
            return;
        }
        match Arc::get_mut(&mut lock) {
            Some(l) => l.reset(),
            None => {
                res.violation("once-leak", "lock still shared after join".into());
                return;
            }
        }
    }
}

fn scenario_notification(op: &Sexp, res: &mut CaseResult) {
    let waiters = op.args().first().and_then(|x| x.as_int()).unwrap_or(2).clamp(1, 4);
    let n = Arc::new(Notification::new());
    let flag = Arc::new(AtomicBool::new(false));
    let early = Arc::new(AtomicU64::new(0));
    let mut hs = Vec::new();
    for _ in 0..waiters {
        let (n, flag, early) = (n.clone(), flag.clone(), early.clone());
        hs.push(verif::spawn(move || {
            n.wait();
            if !flag.load(Ordering::SeqCst) {
                early.fetch_add(1, Ordering::SeqCst);
            }
        }));
    }
    {
        let (n, flag) = (n.clone(), flag.clone());
        hs.push(verif::spawn(move || {
            verif::yield_point(verif::site::USER);
            flag.store(true, Ordering::SeqCst);
            n.notify();
        }));
    }
    let rs = join_all(hs);
    let e = early.load(Ordering::SeqCst);
    res.log(&format!("notification waiters={waiters} early={e}"));
    if rs.iter().any(|r| r.is_err()) || e != 0 {
        res.violation("wait-returned-early", format!("{e} waiters returned before notify"));
    }
}

fn scenario_arena(op: &Sexp, res: &mut CaseResult) {
    struct Tracked(u64, Arc<AtomicU64>);
    impl Drop for Tracked {
        fn drop(&mut self) {
            self.1.fetch_add(1, Ordering::SeqCst);
        }
    }
    let a = op.args();
    let threads = a.first().and_then(|x| x.as_int()).unwrap_or(2).clamp(1, 4) as u64;
    let k = a.get(1).and_then(|x| x.as_int()).unwrap_or(3).clamp(1, 8) as u64;
    let drops = Arc::new(AtomicU64::new(0));
    let arena = SharedArena::new();
    let pool = ThreadPool::new(threads as usize);
    let sum = AtomicU64::new(0);
    pool.scope(|sc| {
        for t in 0..threads {
            let (arena, drops, sum) = (&arena, drops.clone(), &sum);
            sc.spawn(move |sc2| {
                let h = arena.new_handle();
                for i in 0..k {
                    let r = h.alloc(Tracked(t * 100 + i, drops.clone()));
                    verif::yield_point(verif::site::ARENA);
                    // a reference allocated here is read by another task
                    sc2.spawn(move |_| {
                        sum.fetch_add(r.0, Ordering::SeqCst);
                    });
                }
            });
        }
    });
    let want: u64 = (0..threads).flat_map(|t| (0..k).map(move |i| t * 100 + i)).sum();
    let got = sum.load(Ordering::SeqCst);
    let before = drops.load(Ordering::SeqCst);
    drop(arena);
    drop(pool);
    let after = drops.load(Ordering::SeqCst);
    res.log(&format!("arena t={threads} k={k} sum={got} drops={before}->{after}"));
    if got != want {
        res.violation("arena-value-damaged", format!("sum {got} want {want}"));
    } else if before != 0 || after != threads * k {
        res.violation("arena-drop-count", format!("drops before={before} after={after} want {}", threads * k));
    }
}

impl Property for C19 {
    fn id(&self) -> &'static str {
        "C19"
    }
    fn level(&self) -> &'static str {
        "exploration"
    }
    fn technique(&self) -> &'static str {
        "deterministic simulation: real egglog-concurrency code under a seeded token-passing scheduler (random / sticky / PCT / starve policies), deadlock decided by the scheduler"
    }
    fn rule(&self) -> &'static str {
        "case = one seeded scenario (spawn trees with nested scopes, tasks spawning tasks, panicking tasks, chains deeper than the 64-level inline-help bound, parallel_for_each on pools of 1..16 workers; ReadOptimizedLock reader/writer mixes with a yield between the two words of the invariant; ConcurrentVec push/read/resize_with; ParallelVecWriter ranged writes racing growth; NotificationList notify/reset; ResettableOnceLock; Notification; SharedArena) run under one seeded schedule. Non-trivial = the schedule contained at least 3 decisions with more than one runnable thread; distinct = distinct (scenario, schedule trace hash)."
    }
    fn assumptions(&self) -> Vec<String> {
        vec![
            "a serialising scheduler cannot see weak-memory effects or data races on plain memory; threads are only descheduled at hook sites (DESIGN §8b); the Miri complement of the thorough tier covers the two small crates".into(),
            "blocking waits of the pool (channel recv, select, Notification::wait, Once, thread join) are replaced by poll-and-yield variants of the same operation".into(),
            "NotificationList: concurrent reset+notify is documented as unpredictable and is not generated".into(),
        ]
    }
    fn real_vs_stub(&self) -> &'static str {
        "real: egglog-concurrency (ThreadPool, Scope, ReadOptimizedLock, ConcurrentVec, ParallelVecWriter, NotificationList, Notification, ResettableOnceLock, SharedArena), crossbeam channels, arc-swap; substituted: who runs next, and the blocking receive/wait/join calls (poll-and-yield variants)"
    }
    fn budget(&self, tier: Tier) -> Budget {
        match tier {
            Tier::Quick => Budget { cases: 12_000, wall_s: 90 },
            Tier::Thorough => Budget { cases: 400_000, wall_s: 1500 },
        }
    }
    fn isolation(&self, _case: &Case) -> Isolation {
        // no process-global pool is involved: scenarios run back to back
        Isolation::Shared
    }
    fn generate(&self, seed: u64, _index: u64, _tier: Tier) -> Case {
        let mut case = Case::new("C19", seed);
        let root = Rng::new(seed);
        let mut rng = root.fork("workload");
        let mut cfg = root.fork("cfg");
        case.cfg.insert("sim".into(), json!(true));
        case.cfg.insert("sched_seed".into(), json!(cfg.next() >> 1));
        let policy = *cfg.pick(&["random", "random", "sticky", "pct", "pct", "starve"]);
        case.cfg.insert("policy".into(), json!(policy));
        case.cfg.insert("sticky_p".into(), json!(*cfg.pick(&[100u64, 180, 230])));
        case.cfg.insert("pct_changes".into(), json!(1 + cfg.below(3) as u64));
        case.cfg.insert("pct_horizon".into(), json!(*cfg.pick(&[50u64, 200, 1000])));
        case.cfg.insert("starve".into(), json!(cfg.below(5) as u64));
        // swarm: a random subset of the optional yield sites
        let sites = if cfg.chance(1, 3) { u64::MAX } else { cfg.next() | cfg.next() };
        case.cfg.insert("sites".into(), json!(sites));
        let mut ops: Vec<Sexp> = Vec::new();
        match rng.weighted(&[8, 3, 3, 2, 2, 2, 1, 1, 1]) {
            0 => {
                let n = *rng.pick(&[1i64, 1, 2, 2, 3, 4, 4, 8, 16]);
                let mut pool_size = n;
                ops.push(Sexp::call("pool", vec![Sexp::int(n)]));
                let scopes = 1 + rng.below(3);
                for _ in 0..scopes {
                    match rng.weighted(&[8, 2, 2]) {
                        0 => {
                            let mut budget = 2 + rng.below(14);
                            let allow_panic = rng.chance(1, 3);
                            let mut roots = Vec::new();
                            let nr = 1 + rng.below(3);
                            for _ in 0..nr {
                                roots.push(gen_node(&mut rng, 3, &mut budget, allow_panic));
                            }
                            ops.push(Sexp::call("scope", roots));
                        }
                        1 => {
                            // around and beyond (inline-help bound 64) x (workers that can be exhausted)
                            let base = 64 * pool_size.min(3);
                            let d = match rng.below(4) {
                                0 => rng.range(2, 12),
                                1 => 64 + rng.range(1, 8),
                                2 => base + rng.range(1, 24),
                                _ => base / 2 + rng.range(0, 10),
                            };
                            ops.push(Sexp::call("chain", vec![Sexp::int(d), Sexp::int(rng.range(1, 3))]));
                        }
                        _ => ops.push(Sexp::call("pfe", vec![Sexp::int(rng.below(12) as i64)])),
                    }
                    if rng.chance(1, 6) {
                        let n = *rng.pick(&[1i64, 2, 3, 5]);
                        pool_size = n;
                        ops.push(Sexp::call("pool", vec![Sexp::int(n)]));
                    }
                }
            }
            1 => ops.push(Sexp::call(
                "rolock",
                vec![
                    Sexp::int(rng.range(1, 3)),
                    Sexp::int(rng.range(0, 3)),
                    Sexp::int(rng.range(1, 3)),
                ],
            )),
            2 => ops.push(Sexp::call(
                "cvec",
                vec![
                    Sexp::int(rng.range(1, 3)),
                    Sexp::int(rng.range(0, 2)),
                    Sexp::int(rng.range(1, 5)),
                    Sexp::int(*rng.pick(&[1i64, 1, 2, 4])),
                ],
            )),
            3 => ops.push(Sexp::call(
                "cvec-resize",
                vec![
                    Sexp::int(rng.range(1, 3)),
                    Sexp::int(rng.range(1, 20)),
                    Sexp::int(if rng.chance(1, 6) { rng.range(1, 9) } else { 0 }),
                ],
            )),
            4 => ops.push(Sexp::call(
                "pwriter",
                vec![
                    Sexp::int(rng.range(1, 4)),
                    Sexp::int(rng.range(0, 5)),
                    Sexp::int(rng.range(1, 7)),
                    Sexp::int(rng.range(1, 3)),
                ],
            )),
            5 => ops.push(Sexp::call(
                "nlist",
                vec![
                    Sexp::int(rng.range(1, 4)),
                    Sexp::int(*rng.pick(&[3i64, 5, 9, 130])),
                    Sexp::int(rng.range(1, 5)),
                ],
            )),
            6 => ops.push(Sexp::call(
                "once",
                vec![Sexp::int(rng.range(1, 4)), Sexp::int(rng.range(1, 3))],
            )),
            7 => ops.push(Sexp::call("notification", vec![Sexp::int(rng.range(1, 4))])),
            _ => ops.push(Sexp::call(
                "arena",
                vec![Sexp::int(rng.range(1, 3)), Sexp::int(rng.range(1, 5))],
            )),
        }
        case.ops = ops.iter().map(|s| s.to_string()).collect();
        // liveness bound: every spawn tree is finite
        case.cfg.insert("max_steps".into(), json!(400_000u64));
        case
    }
    fn check(&self, case: &Case) -> CaseResult {
        let mut res = CaseResult::new();
        let ops: Vec<Sexp> = case.ops.iter().filter_map(|o| sexp::parse(o).ok()).collect();
        maybe_sim(case, &mut res, |res| {
            let pool_ops: Vec<Sexp> = ops
                .iter()
                .filter(|o| matches!(o.head(), Some("pool" | "scope" | "chain" | "pfe")))
                .cloned()
                .collect();
            if !pool_ops.is_empty() {
                scenario_pool(&pool_ops, res);
            }
            for op in &ops {
                if res.is_violation() {
                    break;
                }
                match op.head() {
                    Some("rolock") => scenario_rolock(op, res),
                    Some("cvec") => scenario_cvec(op, res),
                    Some("cvec-resize") => scenario_cvec_resize(op, res),
                    Some("pwriter") => scenario_pwriter(op, res),
                    Some("nlist") => scenario_nlist(op, res),
                    Some("once") => scenario_once(op, res),
                    Some("notification") => scenario_notification(op, res),
                    Some("arena") => scenario_arena(op, res),
                    _ => {}
                }
            }
        });
        res.nontrivial = res.counters.get("sched_decisions").copied().unwrap_or(0) >= 3;
        res
    }
    fn timeout_s(&self) -> u64 {
        20
    }
    fn timeout_is_violation(&self) -> bool {
        true
    }
}
