//! C05 — a function's value is the merge of everything ever written to its
//! key. A multiset of writes per key is fixed by the seed and then permuted and
//! batched across top-level sets, rule heads in different rulesets and
//! iterations, and unions that collapse keys; the stored value must equal the
//! model's fold. For :no-merge, two different values must surface as an error.

use super::common::*;
use super::modelcheck::{Opts, run_lockstep};
use super::{Budget, Property, Tier};
use crate::case::{Case, CaseResult};
use crate::rng::Rng;
use crate::sexp::Sexp;
use crate::wgen::{Features, FuncOut, Gen, Merge, to_text};

pub struct C05;

impl Property for C05 {
    fn id(&self) -> &'static str {
        "C05"
    }
    fn level(&self) -> &'static str {
        "exploration"
    }
    fn technique(&self) -> &'static str {
        "deterministic simulation: seeded multisets of writes per key, permuted and batched by the seed across commands, rule iterations and threads (token scheduler, table-op cut-off 0 so that the serial, per-shard parallel, in-batch staging and rebuild re-insertion collision paths all run); oracle = fold of the merge expression in the reference model"
    }
    fn rule(&self) -> &'static str {
        "case = lattice functions (min, max, or, and, set-union, set-intersect; keys over i64 and over e-class terms) plus :no-merge functions; for each key a seeded multiset of 2-6 writes delivered in a seeded permutation through top-level (set ..) commands, rule heads fired from trigger relations in several rulesets, and re-delivery; unions between key terms are interleaved so that collisions are also created by rebuilding. After every command and iteration the engine's dump equals the model's (stored value = fold over all writes to keys of the final class); a :no-merge conflict must be an error on both sides. One third of the cases run threaded under the token scheduler with the parallel table-op cut-off at 0 or 1. Non-trivial = at least one key received >= 2 different values; distinct = distinct operation lists."
    }
    fn assumptions(&self) -> Vec<String> {
        vec![
            "merge expressions are associative, commutative and idempotent by construction; other merges are not generated".into(),
            "after a :no-merge conflict the history is not compared further (no promised partial effect)".into(),
        ]
    }
    fn budget(&self, tier: Tier) -> Budget {
        match tier {
            Tier::Quick => Budget { cases: 6000, wall_s: 120 },
            Tier::Thorough => Budget { cases: 150_000, wall_s: 1800 },
        }
    }
    fn generate(&self, seed: u64, index: u64, _tier: Tier) -> Case {
        let mut case = Case::new("C05", seed);
        let root = Rng::new(seed);
        let mut cfg_rng = root.fork("cfg");
        let mut f = Features::draw(&mut cfg_rng);
        f.functions = true;
        f.set_funcs = cfg_rng.chance(2, 3);
        f.bool_funcs = cfg_rng.chance(1, 2);
        f.nomerge = cfg_rng.chance(1, 4);
        f.relations = true;
        f.multi_rulesets = true;
        f.max_cmds = 3 + cfg_rng.below(4);
        let mut g = Gen::new(root.fork("workload"), f);
        let mut ops = to_text(&g.gen_decls());
        ops.push("(relation Trig__ (i64))".into());
        let mut rng = root.fork("writes");
        // the multiset of writes
        let mut writes: Vec<Sexp> = Vec::new();
        let mut multi = false;
        let funcs = g.sig.funcs.clone();
        let mut keyterms: Vec<Sexp> = Vec::new();
        for func in &funcs {
            let nkeys = 1 + rng.below(3);
            for _ in 0..nkeys {
                let args: Vec<Sexp> = func.args.iter().map(|t| g.ground(t, 2)).collect();
                keyterms.extend(args.iter().filter(|a| a.as_list().is_some()).cloned());
                let call = Sexp::call(&func.name, args);
                let nvals = 1 + rng.weighted(&[2, 4, 3, 1]);
                if nvals >= 2 && func.merge != Merge::NoMerge {
                    multi = true;
                }
                for _ in 0..nvals {
                    let v = if func.merge == Merge::NoMerge && !rng.chance(1, 4) {
                        // mostly consistent writes; sometimes a conflict
                        Sexp::int(7)
                    } else {
                        match func.out {
                            FuncOut::I64 => Sexp::int(rng.range(-3, 9)),
                            _ => g.func_value(func, &[]),
                        }
                    };
                    writes.push(Sexp::call("set", vec![call.clone(), v]));
                }
            }
        }
        rng.shuffle(&mut writes);
        // deliver in batches
        let mut trig = 0;
        let mut i = 0;
        while i < writes.len() {
            let n = 1 + rng.below(4);
            let batch: Vec<Sexp> = writes[i..(i + n).min(writes.len())].to_vec();
            i += n;
            match rng.weighted(&[4, 3, 1]) {
                0 => ops.extend(batch.iter().map(|w| w.to_string())),
                1 => {
                    // through a rule head, in some ruleset, fired by a trigger fact
                    let rs = g.pick_ruleset();
                    trig += 1;
                    ops.push(format!(
                        "(rule ((Trig__ {trig})) ({}) :ruleset {rs})",
                        batch.iter().map(|w| w.to_string()).collect::<Vec<_>>().join(" ")
                    ));
                    ops.push(format!("(Trig__ {trig})"));
                    ops.push(format!("(run {rs} {})", 1 + rng.below(2)));
                }
                _ => {
                    // delivered twice (idempotence)
                    ops.extend(batch.iter().map(|w| w.to_string()));
                    ops.extend(batch.iter().map(|w| w.to_string()));
                }
            }
            // unions that collapse keys
            if keyterms.len() >= 2 && rng.chance(1, 3) {
                let a = keyterms[rng.below(keyterms.len())].clone();
                let b = keyterms[rng.below(keyterms.len())].clone();
                // same sort only: look at the head constructor's output sort
                let sort_of = |t: &Sexp| g.sig.ctors.iter().find(|c| Some(c.name.as_str()) == t.head()).map(|c| c.out);
                if sort_of(&a).is_some() && sort_of(&a) == sort_of(&b) {
                    ops.push(Sexp::call("union", vec![a, b]).to_string());
                }
            }
        }
        // some ordinary session at the end (rules over the functions, runs, checks)
        ops.extend(to_text(&g.gen_session()));
        case.ops = ops;
        case.cfg.insert("multi".into(), serde_json::json!(multi));
        if index % 3 == 2 {
            draw_threaded(&mut case, &mut cfg_rng);
            // make sure the parallel insert path is taken
            if let Some(serde_json::Value::Object(env)) = case.cfg.get_mut("env") {
                env.insert(
                    "EGGLOG_PARALLEL_TABLE_OP_CUTOFF".into(),
                    serde_json::json!(*cfg_rng.pick(&["0", "0", "1"])),
                );
            }
        }
        if cfg_rng.chance(1, 2) {
            draw_knobs(&mut case, &mut cfg_rng);
        }
        case
    }
    fn check(&self, case: &Case) -> CaseResult {
        let mut res = CaseResult::new();
        let opts = Opts { pair_checks: 6, ..Opts::default() };
        run_lockstep(case, &mut res, &opts);
        res.nontrivial = res.nontrivial || case.cfg_bool("multi", false) && !res.is_violation();
        res
    }
}
