//! C13 — subsumed rows stop matching and extracting, forever; deleted rows are
//! gone; neither affects any other row.

use super::common::*;
use super::modelcheck::{Opts, run_lockstep};
use super::{Budget, Property, Tier};
use crate::case::{Case, CaseResult};
use crate::rng::Rng;
use crate::sexp::Sexp;
use crate::wgen::{Features, Gen, to_text};

pub struct C13;

impl Property for C13 {
    fn id(&self) -> &'static str {
        "C13"
    }
    fn level(&self) -> &'static str {
        "exploration"
    }
    fn technique(&self) -> &'static str {
        "deterministic simulation: seeded histories interleaving inserts, subsume (top-level, rule head, :subsume rewrite), delete, unions merging subsumed with congruent non-subsumed rows in either order, re-insertions, push/pop and threads (token scheduler; thresholds force each row-rewriting path); refinement against the reference model after every command"
    }
    fn rule(&self) -> &'static str {
        "case = seeded history over constructors/relations with subsume (top level, in rule heads, through :subsume rewrites) and delete, re-insertion of subsumed and deleted tuples, unions that merge a subsumed row with a congruent non-subsumed one in either order, push/pop, followed by probe rules. After every command and iteration the engine's dump — including each row's subsumed flag — must equal the model's (flags combine by max, rules see only non-subsumed matches, check still sees subsumed rows, a deleted row is gone and every other row unchanged); extraction costs must equal the model's minimum over non-subsumed rows. Non-trivial = some row was subsumed or deleted and some iteration updated the database; distinct = distinct operation lists."
    }
    fn assumptions(&self) -> Vec<String> {
        vec![
            "a delete and an insert of the same tuple inside one iteration is not generated (the engine's order 'deletes first' is not promised by any property)".into(),
            "the updated flag of runs is not compared here (whether re-subsuming counts as a change is not specified)".into(),
        ]
    }
    fn budget(&self, tier: Tier) -> Budget {
        match tier {
            Tier::Quick => Budget { cases: 8000, wall_s: 120 },
            Tier::Thorough => Budget { cases: 200_000, wall_s: 1800 },
        }
    }
    fn generate(&self, seed: u64, index: u64, _tier: Tier) -> Case {
        let mut case = Case::new("C13", seed);
        let root = Rng::new(seed);
        let mut cfg_rng = root.fork("cfg");
        let mut f = Features::draw(&mut cfg_rng);
        f.subsume = true;
        // The reference model evaluates naively: once a row is deleted, a naive
        // re-run of a rule that derived it would re-create it while semi-naive
        // evaluation does not re-fire. Deletions therefore come in a final phase
        // after which only non-generative probe rules run.
        f.delete = false;
        let with_delete = cfg_rng.chance(2, 3);
        f.rewrites = true;
        f.extract = true;
        f.pushpop = cfg_rng.chance(1, 4);
        f.prints = false;
        let mut g = Gen::new(root.fork("workload"), f);
        let mut ops = to_text(&g.gen_decls());
        let session = to_text(&g.gen_session());
        let mut rng = root.fork("extra");
        for op in session {
            ops.push(op);
            if rng.chance(1, 4) {
                // subsume a term, then touch it again
                let s = g.rng.below(g.sig.sorts.len());
                let t = g.force_app(s);
                ops.push(Sexp::call("subsume", vec![t.clone()]).to_string());
                match rng.below(4) {
                    0 => ops.push(t.to_string()), // re-insert
                    1 => {
                        let u = g.ground_term(s, 2);
                        ops.push(Sexp::call("union", vec![t.clone(), u]).to_string());
                    }
                    2 => ops.push(Sexp::call("check", vec![t.clone()]).to_string()),
                    _ => ops.push(Sexp::call("extract", vec![t.clone()]).to_string()),
                }
            }
        }
        if with_delete {
            ops.push("(ruleset rdel__)".into());
            for _ in 0..1 + rng.below(3) {
                let s = g.rng.below(g.sig.sorts.len());
                let t = g.force_app(s);
                ops.push(Sexp::call("delete", vec![t.clone()]).to_string());
                if rng.chance(1, 3) {
                    ops.push(t.to_string()); // re-insert a deleted tuple
                }
            }
            if rng.chance(1, 2) {
                // delete through a rule head (every match of one constructor pattern)
                let s = g.rng.below(g.sig.sorts.len());
                let mut vars = Vec::new();
                let p = g.ctor_pattern(s, 1, &mut vars);
                if p.args().iter().all(|x| x.as_atom().is_some()) {
                    ops.push(format!("(rule ({p}) ((delete {p})) :ruleset rdel__)"));
                    ops.push("(run rdel__ 1)".into());
                }
            }
            for _ in 0..rng.below(3) {
                ops.push(g.gen_check().to_string());
                ops.push(g.gen_extract().to_string());
            }
        }
        ops.extend(super::c01::probe_ops(&mut g, 2));
        case.ops = ops;
        if index % 10 == 9 {
            draw_threaded(&mut case, &mut cfg_rng);
        }
        if cfg_rng.chance(2, 3) {
            draw_knobs(&mut case, &mut cfg_rng);
        }
        case
    }
    fn check(&self, case: &Case) -> CaseResult {
        let mut res = CaseResult::new();
        let opts = Opts { compare_updated: false, pair_checks: 8, ..Opts::default() };
        run_lockstep(case, &mut res, &opts);
        let touched = case.ops.iter().any(|o| o.contains("subsume") || o.starts_with("(delete"));
        res.nontrivial = res.nontrivial && touched;
        res
    }
}
