//! Engine wrapper: runs one command at a time on a real `egglog::EGraph`,
//! turning every result into an outcome record (DESIGN §2.5): `Ok(outputs)`,
//! `Err(kind)`, `Panic(message)`. Report timings never reach a record.

use egglog::{CommandOutput, EGraph, Error};
use std::cell::RefCell;
use std::panic::{AssertUnwindSafe, catch_unwind};

#[derive(Clone, Debug, PartialEq, Eq)]
pub enum Outcome {
    Ok(Vec<String>),
    Err { kind: String, msg: String },
    Panic(String),
}

impl Outcome {
    pub fn is_ok(&self) -> bool {
        matches!(self, Outcome::Ok(_))
    }
    pub fn is_panic(&self) -> bool {
        matches!(self, Outcome::Panic(_))
    }
    /// Short form used in logs and comparisons (error text without spans).
    pub fn brief(&self) -> String {
        match self {
            Outcome::Ok(o) => format!("ok {o:?}"),
            Outcome::Err { kind, .. } => format!("err {kind}"),
            Outcome::Panic(m) => format!("panic {m}"),
        }
    }
    pub fn kind(&self) -> &str {
        match self {
            Outcome::Ok(_) => "ok",
            Outcome::Err { kind, .. } => kind,
            Outcome::Panic(_) => "panic",
        }
    }
}

thread_local! {
    static LAST_PANIC: RefCell<Option<String>> = const { RefCell::new(None) };
}

/// Install a panic hook that records message and location instead of printing.
pub fn install_panic_hook() {
    std::panic::set_hook(Box::new(|info| {
        let loc = info
            .location()
            .map(|l| {
                let f = l.file();
                let f = f.strip_prefix("/repo/").unwrap_or(f);
                format!("{}:{}", f, l.line())
            })
            .unwrap_or_default();
        let msg = if let Some(s) = info.payload().downcast_ref::<&str>() {
            s.to_string()
        } else if let Some(s) = info.payload().downcast_ref::<String>() {
            s.clone()
        } else {
            "<non-string payload>".to_string()
        };
        let first = msg.lines().next().unwrap_or("").to_string();
        let short: String = first.chars().take(160).collect();
        LAST_PANIC.with(|p| {
            let mut p = p.borrow_mut();
            // keep the first panic of a cascade
            if p.is_none() {
                *p = Some(format!("{loc} {short}"));
            }
        });
        if crate::VERBOSE.load(std::sync::atomic::Ordering::Relaxed) {
            eprintln!("PANIC {loc} {msg}");
        }
    }));
}

pub fn take_panic() -> Option<String> {
    LAST_PANIC.with(|p| p.borrow_mut().take())
}

/// Run `f`, converting a panic into `Err(location + message)`.
pub fn guarded<R>(f: impl FnOnce() -> R) -> Result<R, String> {
    take_panic();
    match catch_unwind(AssertUnwindSafe(f)) {
        Ok(r) => Ok(r),
        Err(payload) => {
            let from_hook = take_panic();
            let msg = from_hook.unwrap_or_else(|| {
                if let Some(s) = payload.downcast_ref::<&str>() {
                    s.to_string()
                } else if let Some(s) = payload.downcast_ref::<String>() {
                    s.clone()
                } else {
                    "<panic>".to_string()
                }
            });
            Err(msg)
        }
    }
}

pub fn error_kind(e: &Error) -> String {
    match e {
        Error::ParseError(_) => "Parse",
        Error::NotFoundError(_) => "NotFound",
        Error::TypeError(_) => "Type",
        Error::ApiError(_) => "Api",
        Error::TypeErrors(_) => "Type",
        Error::CheckError(..) => "Check",
        Error::NoSuchRuleset(..) => "NoSuchRuleset",
        Error::CombinedRulesetError(..) => "CombinedRuleset",
        Error::BackendError(_) => "Backend",
        Error::Pop(_) => "Pop",
        Error::ExpectFail(_) => "ExpectFail",
        Error::IoError(..) => "Io",
        Error::SubsumeMergeError(..) => "SubsumeMerge",
        Error::ExtractError(_) => "Extract",
        Error::ProofError { .. } => "Proof",
        Error::Shadowing(..) => "Shadowing",
        Error::CommandAlreadyExists(..) => "CommandAlreadyExists",
        Error::RuleAlreadyExists(..) => "RuleAlreadyExists",
        Error::UnsupportedInputType(..) => "UnsupportedInputType",
        Error::DesugarError(..) => "Desugar",
        Error::InputFileFormatError(_) => "InputFileFormat",
        Error::UnsupportedProofCommand { .. } => "UnsupportedProofCommand",
        Error::ProofsIncompatibleApi { .. } => "ProofsIncompatibleApi",
    }
    .to_string()
}

/// Kinds that are pre-execution rejections (C09: "no observable effect").
pub fn is_rejection(kind: &str) -> bool {
    matches!(
        kind,
        "Parse"
            | "Type"
            | "Desugar"
            | "Shadowing"
            | "NoSuchRuleset"
            | "NotFound"
            | "RuleAlreadyExists"
            | "CombinedRuleset"
            | "SubsumeMerge"
            | "UnsupportedProofCommand"
            | "Pop"
    )
}

/// Render an output in an id-free, timing-free way.
pub fn render_output(o: &CommandOutput) -> Option<String> {
    Some(match o {
        CommandOutput::RunSchedule(r) => format!("run updated={}", r.updated),
        CommandOutput::OverallStatistics(_) => return None,
        CommandOutput::ExtractBest(dag, cost, t) => {
            format!("extract cost={cost} term={}", dag.to_string(*t))
        }
        other => other.to_string().trim_end().to_string(),
    })
}

#[derive(Clone, Copy, Debug, PartialEq, Eq)]
pub enum Mode {
    Plain,
    TermEncoding,
    Proofs,
}

#[derive(Clone)]
pub struct Engine {
    pub eg: EGraph,
}

impl Engine {
    pub fn new(mode: Mode, threads: usize) -> Engine {
        let mut eg = match mode {
            Mode::Plain => EGraph::default(),
            Mode::TermEncoding => EGraph::new_with_term_encoding(),
            Mode::Proofs => EGraph::new_with_proofs(),
        };
        if threads != 1 {
            eg.set_num_threads(threads);
        }
        Engine { eg }
    }

    /// Run one piece of program text; never propagates a panic.
    pub fn run_raw(&mut self, text: &str) -> Result<Result<Vec<CommandOutput>, Error>, String> {
        let eg = &mut self.eg;
        guarded(move || eg.parse_and_run_program(None, text))
    }

    pub fn run(&mut self, text: &str) -> Outcome {
        match self.run_raw(text) {
            Ok(Ok(outs)) => Outcome::Ok(outs.iter().filter_map(render_output).collect()),
            Ok(Err(e)) => {
                if crate::VERBOSE.load(std::sync::atomic::Ordering::Relaxed) {
                    eprintln!("ERR {text} :: {}", e.to_string().replace('\n', " | "));
                }
                Outcome::Err {
                    kind: error_kind(&e),
                    msg: e.to_string(),
                }
            }
            Err(p) => Outcome::Panic(p),
        }
    }

    pub fn dump(&self) -> Result<(crate::dump::RawDb, crate::dump::Dump), String> {
        let eg = &self.eg;
        guarded(|| {
            let raw = crate::dump::read_engine(eg);
            let d = crate::dump::canonical(&raw);
            (raw, d)
        })
    }

    pub fn invariant(&self, raw: &crate::dump::RawDb) -> Result<Vec<String>, String> {
        let eg = &self.eg;
        guarded(|| crate::dump::invariant(eg, raw))
    }
}
