//! A tiny s-expression reader/printer, independent of egglog's own parser.
//! The reference model and the shrinker work on these.

#[derive(Clone, Debug, PartialEq, Eq, Hash, PartialOrd, Ord)]
pub enum Sexp {
    Atom(String),
    Str(String),
    List(Vec<Sexp>),
}

impl Sexp {
    pub fn atom(s: &str) -> Sexp {
        Sexp::Atom(s.to_string())
    }
    pub fn int(i: i64) -> Sexp {
        Sexp::Atom(i.to_string())
    }
    pub fn list(v: Vec<Sexp>) -> Sexp {
        Sexp::List(v)
    }
    pub fn call(head: &str, args: Vec<Sexp>) -> Sexp {
        let mut v = vec![Sexp::atom(head)];
        v.extend(args);
        Sexp::List(v)
    }
    pub fn as_atom(&self) -> Option<&str> {
        match self {
            Sexp::Atom(s) => Some(s),
            _ => None,
        }
    }
    pub fn as_list(&self) -> Option<&[Sexp]> {
        match self {
            Sexp::List(v) => Some(v),
            _ => None,
        }
    }
    pub fn head(&self) -> Option<&str> {
        self.as_list()?.first()?.as_atom()
    }
    pub fn args(&self) -> &[Sexp] {
        match self {
            Sexp::List(v) if !v.is_empty() => &v[1..],
            _ => &[],
        }
    }
    pub fn as_int(&self) -> Option<i64> {
        self.as_atom()?.parse().ok()
    }
    pub fn size(&self) -> usize {
        match self {
            Sexp::List(v) => 1 + v.iter().map(|x| x.size()).sum::<usize>(),
            _ => 1,
        }
    }
}

impl std::fmt::Display for Sexp {
    fn fmt(&self, f: &mut std::fmt::Formatter<'_>) -> std::fmt::Result {
        match self {
            Sexp::Atom(s) => write!(f, "{s}"),
            Sexp::Str(s) => {
                write!(f, "\"")?;
                for c in s.chars() {
                    match c {
                        '"' => write!(f, "\\\"")?,
                        '\\' => write!(f, "\\\\")?,
                        '\n' => write!(f, "\\n")?,
                        c => write!(f, "{c}")?,
                    }
                }
                write!(f, "\"")
            }
            Sexp::List(v) => {
                write!(f, "(")?;
                for (i, x) in v.iter().enumerate() {
                    if i > 0 {
                        write!(f, " ")?;
                    }
                    write!(f, "{x}")?;
                }
                write!(f, ")")
            }
        }
    }
}

pub fn parse_all(src: &str) -> Result<Vec<Sexp>, String> {
    let b = src.as_bytes();
    let mut pos = 0usize;
    let mut out = Vec::new();
    loop {
        skip_ws(b, &mut pos);
        if pos >= b.len() {
            return Ok(out);
        }
        out.push(parse_one(b, &mut pos)?);
    }
}

pub fn parse(src: &str) -> Result<Sexp, String> {
    let v = parse_all(src)?;
    if v.len() != 1 {
        return Err(format!("expected one s-expression, got {}", v.len()));
    }
    Ok(v.into_iter().next().unwrap())
}

fn skip_ws(b: &[u8], pos: &mut usize) {
    while *pos < b.len() {
        let c = b[*pos];
        if c == b';' {
            while *pos < b.len() && b[*pos] != b'\n' {
                *pos += 1;
            }
        } else if c.is_ascii_whitespace() {
            *pos += 1;
        } else {
            break;
        }
    }
}

fn parse_one(b: &[u8], pos: &mut usize) -> Result<Sexp, String> {
    skip_ws(b, pos);
    if *pos >= b.len() {
        return Err("eof".into());
    }
    match b[*pos] {
        b'(' => {
            *pos += 1;
            let mut v = Vec::new();
            loop {
                skip_ws(b, pos);
                if *pos >= b.len() {
                    return Err("unclosed paren".into());
                }
                if b[*pos] == b')' {
                    *pos += 1;
                    return Ok(Sexp::List(v));
                }
                v.push(parse_one(b, pos)?);
            }
        }
        b')' => Err("unexpected )".into()),
        b'"' => {
            *pos += 1;
            let mut s = Vec::new();
            while *pos < b.len() && b[*pos] != b'"' {
                if b[*pos] == b'\\' && *pos + 1 < b.len() {
                    *pos += 1;
                    s.push(match b[*pos] {
                        b'n' => b'\n',
                        c => c,
                    });
                } else {
                    s.push(b[*pos]);
                }
                *pos += 1;
            }
            if *pos >= b.len() {
                return Err("unclosed string".into());
            }
            *pos += 1;
            Ok(Sexp::Str(String::from_utf8_lossy(&s).to_string()))
        }
        _ => {
            let start = *pos;
            while *pos < b.len()
                && !b[*pos].is_ascii_whitespace()
                && b[*pos] != b'('
                && b[*pos] != b')'
                && b[*pos] != b';'
                && b[*pos] != b'"'
            {
                *pos += 1;
            }
            Ok(Sexp::Atom(
                String::from_utf8_lossy(&b[start..*pos]).to_string(),
            ))
        }
    }
}
