//! Batch driver: derives run seeds from VERIF_SEED, keeps the worker processes
//! busy, aggregates evidence, minimises and re-validates failures, prints
//! `VIOLATION property=<id> replay=<path>` / `KNOWN-FINDING: ...`.
//! Exit 0 / 1 / 2 (2 = harness error, never a verdict).

use crate::case::{Case, CaseResult, Verdict};
use crate::props::{Isolation, Property, Tier};
use crate::rng::{hash_str, run_seed};
use serde_json::{Value, json};
use std::collections::{BTreeMap, HashSet};
use std::io::{BufRead, BufReader, Write};
use std::process::{Child, Command, Stdio};
use std::sync::atomic::{AtomicBool, AtomicU64, Ordering};
use std::sync::mpsc::{Receiver, RecvTimeoutError, channel};
use std::sync::{Arc, Mutex};
use std::time::{Duration, Instant};

pub fn verif_root() -> std::path::PathBuf {
    std::env::var("VERIF_ROOT")
        .map(std::path::PathBuf::from)
        .unwrap_or_else(|_| std::path::PathBuf::from("/verif"))
}

/// A persistent worker process.
struct Worker {
    child: Child,
    stdin: std::process::ChildStdin,
    lines: Receiver<String>,
}

fn spawn_worker(core: usize, env: &[(String, String)], once: bool) -> Worker {
    let exe = std::env::current_exe().expect("current_exe");
    let mut cmd = Command::new("taskset");
    cmd.arg("-c").arg(core.to_string()).arg(&exe).arg("worker");
    if once {
        cmd.arg("--once");
    }
    for (k, v) in env {
        cmd.env(k, v);
    }
    cmd.env("RUST_BACKTRACE", "0");
    cmd.stdin(Stdio::piped())
        .stdout(Stdio::piped())
        .stderr(Stdio::null());
    let mut child = cmd.spawn().expect("spawn worker");
    let stdin = child.stdin.take().unwrap();
    let stdout = child.stdout.take().unwrap();
    let (tx, rx) = channel();
    std::thread::spawn(move || {
        let r = BufReader::new(stdout);
        for l in r.lines() {
            match l {
                Ok(l) => {
                    if tx.send(l).is_err() {
                        break;
                    }
                }
                Err(_) => break,
            }
        }
    });
    Worker {
        child,
        stdin,
        lines: rx,
    }
}

impl Worker {
    /// Send a case, wait for the result line. `Err` = the process died or hung.
    fn run(&mut self, case: &Case, timeout: Duration) -> Result<CaseResult, String> {
        let line = case.to_json().to_string();
        if writeln!(self.stdin, "{line}").is_err() || self.stdin.flush().is_err() {
            return Err(self.death("write failed"));
        }
        let deadline = Instant::now() + timeout;
        loop {
            let left = deadline.saturating_duration_since(Instant::now());
            match self.lines.recv_timeout(left) {
                Ok(l) => {
                    if let Some(rest) = l.strip_prefix("RESULT ") {
                        let v: Value = serde_json::from_str(rest).map_err(|e| e.to_string())?;
                        return CaseResult::from_json(&v);
                    }
                    // other stdout noise is ignored
                }
                Err(RecvTimeoutError::Timeout) => {
                    let _ = self.child.kill();
                    let _ = self.child.wait();
                    return Err("timeout".into());
                }
                Err(RecvTimeoutError::Disconnected) => {
                    return Err(self.death("eof"));
                }
            }
        }
    }
    fn death(&mut self, why: &str) -> String {
        let st = self.child.wait();
        match st {
            Ok(s) => {
                use std::os::unix::process::ExitStatusExt;
                if let Some(sig) = s.signal() {
                    format!("died: signal {sig} ({why})")
                } else {
                    format!("died: exit code {:?} ({why})", s.code())
                }
            }
            Err(e) => format!("died: {e} ({why})"),
        }
    }
    fn kill(mut self) {
        drop(self.stdin);
        let _ = self.child.kill();
        let _ = self.child.wait();
    }
}

fn case_env(case: &Case) -> Vec<(String, String)> {
    let mut v = Vec::new();
    if let Some(Value::Object(m)) = case.cfg.get("env") {
        for (k, x) in m {
            if let Some(s) = x.as_str() {
                v.push((k.clone(), s.to_string()));
            }
        }
    }
    v
}

/// Executes cases on worker processes pinned to one core.
pub struct Pool {
    core: usize,
    shared: Option<Worker>,
}

impl Pool {
    pub fn new(core: usize) -> Pool {
        Pool { core, shared: None }
    }
    /// Run one case in the isolation its property asks for. A dead worker is
    /// an observation (`abort`), a hung one a timeout.
    pub fn run(&mut self, prop: &dyn Property, case: &Case) -> CaseResult {
        let timeout = Duration::from_secs(prop.timeout_s());
        let r = match prop.isolation(case) {
            Isolation::Fresh => {
                let mut w = spawn_worker(self.core, &case_env(case), true);
                let r = w.run(case, timeout);
                w.kill();
                r
            }
            Isolation::Shared => {
                // a worker that reported a scheduler-decided abort (deadlock, step
                // limit) has exited after its RESULT line: replace it first
                if let Some(w) = self.shared.as_mut() {
                    if !matches!(w.child.try_wait(), Ok(None)) {
                        if let Some(w) = self.shared.take() {
                            w.kill();
                        }
                    }
                }
                if self.shared.is_none() {
                    self.shared = Some(spawn_worker(self.core, &[], false));
                }
                let mut r = self.shared.as_mut().unwrap().run(case, timeout);
                if matches!(&r, Err(e) if e.contains("write failed")) {
                    // lost the race with an exiting worker: the case was never started
                    if let Some(w) = self.shared.take() {
                        w.kill();
                    }
                    self.shared = Some(spawn_worker(self.core, &[], false));
                    r = self.shared.as_mut().unwrap().run(case, timeout);
                }
                if matches!(&r, Err(e) if e.contains("exit code Some(3)")) {
                    // the worker was still exiting after the previous case's scheduler
                    // abort when this case was written to it: the case never ran
                    if let Some(w) = self.shared.take() {
                        w.kill();
                    }
                    self.shared = Some(spawn_worker(self.core, &[], false));
                    r = self.shared.as_mut().unwrap().run(case, timeout);
                }
                let worker_exits = match &r {
                    Err(_) => true,
                    Ok(res) => matches!(&res.verdict, Verdict::Violation { class, .. } if class == "deadlock")
                        || matches!(&res.verdict, Verdict::Inconclusive(w) if w == "step-limit")
                        || matches!(&res.verdict, Verdict::HarnessError(w) if w.contains("stalled")),
                };
                if worker_exits {
                    if let Some(w) = self.shared.take() {
                        w.kill();
                    }
                }
                r
            }
        };
        match r {
            Ok(r) => r,
            Err(e) => {
                let mut res = CaseResult::new();
                if e == "timeout" {
                    res.verdict = if prop.timeout_is_violation() {
                        Verdict::Violation {
                            class: "hang".into(),
                            detail: format!("no result within {} s", prop.timeout_s()),
                        }
                    } else {
                        Verdict::Inconclusive("timeout".into())
                    };
                } else if e.contains("exit code Some(2)") || e.contains("exit code Some(127)") || e.contains("exit code Some(126)") {
                    // 2: the worker's own harness-error exit; 126/127: the worker binary could not be executed
                    res.verdict = Verdict::HarnessError(e);
                } else {
                    // the process running real egglog code died: abort / stack overflow / segfault
                    res.verdict = Verdict::Violation {
                        class: "process-abort".into(),
                        detail: e,
                    };
                }
                res
            }
        }
    }
    pub fn shutdown(&mut self) {
        if let Some(w) = self.shared.take() {
            w.kill();
        }
    }
}

#[derive(Clone, Debug)]
pub struct Known {
    pub property: String,
    pub class: String,
    pub detail_contains: Vec<String>,
    pub status: String,
    pub what: String,
}

pub fn load_known() -> Vec<Known> {
    let p = verif_root().join("known-findings.json");
    let Ok(txt) = std::fs::read_to_string(p) else {
        return vec![];
    };
    let Ok(v) = serde_json::from_str::<Value>(&txt) else {
        return vec![];
    };
    v["findings"]
        .as_array()
        .map(|a| {
            a.iter()
                .map(|f| Known {
                    property: f["property"].as_str().unwrap_or("").to_string(),
                    class: f["class"].as_str().unwrap_or("").to_string(),
                    detail_contains: f["detail_contains"]
                        .as_array()
                        .map(|x| {
                            x.iter()
                                .filter_map(|s| s.as_str().map(|s| s.to_string()))
                                .collect()
                        })
                        .unwrap_or_default(),
                    status: f["status"].as_str().unwrap_or("open").to_string(),
                    what: f["what"].as_str().unwrap_or("").to_string(),
                })
                .collect()
        })
        .unwrap_or_default()
}

pub fn match_known<'a>(known: &'a [Known], prop: &str, class: &str, detail: &str) -> Option<&'a Known> {
    known.iter().find(|k| {
        k.status == "open"
            && k.property == prop
            && k.class == class
            && k.detail_contains.iter().all(|d| detail.contains(d))
    })
}

fn same_violation(r: &CaseResult, class: &str, known: &[Known], prop: &str, want_known: Option<&str>) -> bool {
    match &r.verdict {
        Verdict::Violation { class: c, detail } => {
            if c != class {
                return false;
            }
            // keep the known/unknown status stable while shrinking
            let k = match_known(known, prop, c, detail).map(|k| k.what.as_str());
            k == want_known
        }
        _ => false,
    }
}

/// Shrink a failing case while the same violation class persists.
pub fn minimise(
    prop: &dyn Property,
    pool: &mut Pool,
    case: &Case,
    class: &str,
    known: &[Known],
    budget_evals: usize,
) -> (Case, CaseResult, usize) {
    let mut evals = 0usize;
    let mut best = case.clone();
    let mut best_res = pool.run(prop, &best);
    evals += 1;
    let want_known: Option<String> = match &best_res.verdict {
        Verdict::Violation { class: c, detail } => {
            match_known(known, prop.id(), c, detail).map(|k| k.what.clone())
        }
        _ => None,
    };
    if !same_violation(&best_res, class, known, prop.id(), want_known.as_deref()) {
        return (best, best_res, evals);
    }
    let deadline = Instant::now() + Duration::from_secs(240);
    // 1. drop operations
    let mut chunk = (best.ops.len() / 2).max(1);
    loop {
        let mut i = 0;
        while i < best.ops.len() && evals < budget_evals && Instant::now() < deadline {
            let mut cand = best.clone();
            let end = (i + chunk).min(cand.ops.len());
            cand.ops.drain(i..end);
            let r = pool.run(prop, &cand);
            evals += 1;
            if same_violation(&r, class, known, prop.id(), want_known.as_deref()) {
                best = cand;
                best_res = r;
            } else {
                i += chunk;
            }
        }
        if chunk == 1 {
            break;
        }
        chunk /= 2;
    }
    // 2. simplify the environment
    let mut cfg_cands: Vec<Case> = Vec::new();
    if best.threads() > 1 || best.cfg_bool("sim", false) {
        let mut c = best.clone();
        c.cfg.insert("threads".into(), json!(1));
        c.cfg.insert("sim".into(), json!(false));
        c.cfg.remove("env");
        c.sched = None;
        cfg_cands.push(c);
    }
    for c in cfg_cands {
        if evals >= budget_evals || Instant::now() >= deadline {
            break;
        }
        let r = pool.run(prop, &c);
        evals += 1;
        if same_violation(&r, class, known, prop.id(), want_known.as_deref()) {
            best = c;
            best_res = r;
        }
    }
    for key in ["knobs", "env"] {
        let keys: Vec<String> = best
            .cfg
            .get(key)
            .and_then(|v| v.as_object())
            .map(|m| m.keys().cloned().collect())
            .unwrap_or_default();
        for k in keys {
            if evals >= budget_evals || Instant::now() >= deadline {
                break;
            }
            let mut c = best.clone();
            if let Some(Value::Object(m)) = c.cfg.get_mut(key) {
                m.remove(&k);
            }
            let r = pool.run(prop, &c);
            evals += 1;
            if same_violation(&r, class, known, prop.id(), want_known.as_deref()) {
                best = c;
                best_res = r;
            }
        }
    }
    // 3. shrink inside operations (drop list elements, shrink integers)
    let mut progress = true;
    while progress && evals < budget_evals && Instant::now() < deadline {
        progress = false;
        for i in 0..best.ops.len() {
            let Ok(s) = crate::sexp::parse(&best.ops[i]) else { continue };
            for cand_s in shrink_sexp(&s) {
                if evals >= budget_evals || Instant::now() >= deadline {
                    break;
                }
                let mut c = best.clone();
                c.ops[i] = cand_s.to_string();
                let r = pool.run(prop, &c);
                evals += 1;
                if same_violation(&r, class, known, prop.id(), want_known.as_deref()) {
                    best = c;
                    best_res = r;
                    progress = true;
                    break;
                }
            }
        }
    }
    // 4. operations made irrelevant by the shrinking above
    let mut i = 0;
    while i < best.ops.len() && evals < budget_evals + 60 && Instant::now() < deadline {
        let mut cand = best.clone();
        cand.ops.remove(i);
        let r = pool.run(prop, &cand);
        evals += 1;
        if same_violation(&r, class, known, prop.id(), want_known.as_deref()) {
            best = cand;
            best_res = r;
        } else {
            i += 1;
        }
    }
    // pin the schedule that failed, for exact replay
    if let Some(t) = &best_res.trace {
        best.sched = Some(t.clone());
    }
    (best, best_res, evals)
}

/// One-step simplifications of an s-expression.
fn shrink_sexp(s: &crate::sexp::Sexp) -> Vec<crate::sexp::Sexp> {
    use crate::sexp::Sexp;
    let mut out = Vec::new();
    fn go(s: &Sexp, path: &mut Vec<usize>, out: &mut Vec<(Vec<usize>, Sexp)>, depth: usize) {
        if let Sexp::List(v) = s {
            // drop an element of a nested list (facts, actions, arguments of seq)
            if v.len() > 1 {
                for i in (if depth == 0 { 1 } else { 0 })..v.len() {
                    if matches!(v[i], Sexp::List(_)) && v.iter().filter(|x| matches!(x, Sexp::List(_))).count() > 1 {
                        let mut w = v.clone();
                        w.remove(i);
                        out.push((path.clone(), Sexp::List(w)));
                    }
                }
            }
            for (i, x) in v.iter().enumerate() {
                path.push(i);
                go(x, path, out, depth + 1);
                path.pop();
            }
        } else if let Some(n) = s.as_int() {
            if n > 1 {
                out.push((path.clone(), Sexp::int(1)));
            }
        }
    }
    fn replace(s: &Sexp, path: &[usize], new: &Sexp) -> Sexp {
        if path.is_empty() {
            return new.clone();
        }
        match s {
            Sexp::List(v) => {
                let mut w = v.clone();
                w[path[0]] = replace(&v[path[0]], &path[1..], new);
                Sexp::List(w)
            }
            _ => s.clone(),
        }
    }
    let mut raw = Vec::new();
    go(s, &mut Vec::new(), &mut raw, 0);
    for (p, n) in raw.into_iter().take(24) {
        out.push(replace(s, &p, &n));
    }
    out
}

pub struct BatchOpts {
    pub tier: Tier,
    pub verif_seed: u64,
    pub cases: Option<u64>,
    pub wall_s: Option<u64>,
    pub workers: usize,
    pub write_evidence: bool,
}

struct Agg {
    evaluations: u64,
    nontrivial_hashes: HashSet<u64>,
    case_hashes: HashSet<u64>,
    counters: BTreeMap<String, u64>,
    states: HashSet<u64>,
    traces: HashSet<u64>,
    steps: u64,
    handovers: u64,
    threaded_runs: u64,
    inconclusive: BTreeMap<String, u64>,
    harness: Vec<String>,
    violations: Vec<(Case, String, String)>,
    known_hits: BTreeMap<String, u64>,
    unknown: u64,
    samples: Vec<Value>,
}

pub fn batch(prop: &dyn Property, opts: &BatchOpts) -> i32 {
    let t0 = Instant::now();
    let b = prop.budget(opts.tier);
    let n_cases = opts.cases.unwrap_or(b.cases);
    let wall = Duration::from_secs(opts.wall_s.unwrap_or(b.wall_s));
    let next = Arc::new(AtomicU64::new(0));
    let stop = Arc::new(AtomicBool::new(false));
    let agg = Arc::new(Mutex::new(Agg {
        evaluations: 0,
        nontrivial_hashes: HashSet::new(),
        case_hashes: HashSet::new(),
        counters: BTreeMap::new(),
        states: HashSet::new(),
        traces: HashSet::new(),
        steps: 0,
        handovers: 0,
        threaded_runs: 0,
        inconclusive: BTreeMap::new(),
        harness: Vec::new(),
        violations: Vec::new(),
        known_hits: BTreeMap::new(),
        unknown: 0,
        samples: Vec::new(),
    }));
    let known_all = load_known();
    let known_ref: &[Known] = &known_all;
    println!(
        "egsim batch property={} tier={:?} VERIF_SEED={} cases<={} wall<={}s workers={}",
        prop.id(),
        opts.tier,
        opts.verif_seed,
        n_cases,
        wall.as_secs(),
        opts.workers
    );
    std::thread::scope(|sc| {
        for w in 0..opts.workers {
            let next = next.clone();
            let stop = stop.clone();
            let agg = agg.clone();
            sc.spawn(move || {
                let mut pool = Pool::new(w);
                loop {
                    if stop.load(Ordering::Relaxed) || t0.elapsed() > wall {
                        break;
                    }
                    let i = next.fetch_add(1, Ordering::Relaxed);
                    if i >= n_cases {
                        break;
                    }
                    let seed = run_seed(opts.verif_seed, prop.id(), i / prop.group());
                    let case = prop.generate(seed, i, opts.tier);
                    let r = pool.run(prop, &case);
                    let h = hash_str(&format!("{:?}{:?}", case.ops, case.cfg));
                    let mut a = agg.lock().unwrap();
                    a.evaluations += 1;
                    a.case_hashes.insert(h);
                    if r.nontrivial {
                        a.nontrivial_hashes.insert(h);
                    }
                    for (k, v) in &r.counters {
                        *a.counters.entry(k.clone()).or_insert(0) += v;
                    }
                    for s in &r.states {
                        a.states.insert(*s);
                    }
                    if r.steps > 0 {
                        a.traces.insert(r.trace_hash);
                        a.steps += r.steps;
                        a.handovers += r.handovers;
                        a.threaded_runs += 1;
                    }
                    if a.samples.len() < 3 && r.nontrivial {
                        a.samples.push(json!({"seed": case.seed, "cfg": case.cfg, "ops": case.ops}));
                    }
                    match &r.verdict {
                        Verdict::Pass => {}
                        Verdict::Inconclusive(w) => {
                            *a.inconclusive.entry(w.clone()).or_insert(0) += 1;
                            if w == "timeout" {
                                println!("NOTE: case index {i} (seed {}) timed out", case.seed);
                            }
                        }
                        Verdict::HarnessError(w) => {
                            a.harness.push(format!("seed {}: {w}", case.seed));
                        }
                        Verdict::Violation { class, detail } => {
                            // a recorded finding must not cut the exploration short
                            if let Some(k) = match_known(known_ref, prop.id(), class, detail) {
                                let n = a.known_hits.entry(k.what.clone()).or_insert(0);
                                *n += 1;
                                if *n <= 2 {
                                    a.violations.push((case.clone(), class.clone(), detail.clone()));
                                }
                            } else {
                                a.violations.push((case.clone(), class.clone(), detail.clone()));
                                a.unknown += 1;
                                if a.unknown >= 40 {
                                    stop.store(true, Ordering::Relaxed);
                                }
                            }
                        }
                    }
                }
                pool.shutdown();
            });
        }
    });
    let mut a = Arc::try_unwrap(agg).ok().unwrap().into_inner().unwrap();
    if a.samples.is_empty() {
        // always show at least one explored case
        let seed = run_seed(opts.verif_seed, prop.id(), 0);
        let c = prop.generate(seed, 0, opts.tier);
        a.samples.push(json!({"seed": c.seed, "cfg": c.cfg, "ops": c.ops}));
    }
    let wall_s = t0.elapsed().as_secs_f64();
    // ---- violations: group by class, minimise one per class, classify
    let known = known_all.clone();
    let mut exit = 0;
    let mut reported: Vec<Value> = Vec::new();
    let mut by_class: BTreeMap<String, Vec<(Case, String)>> = BTreeMap::new();
    for (c, class, detail) in a.violations.drain(..) {
        by_class.entry(class).or_default().push((c, detail));
    }
    let mut pool = Pool::new(0);
    let mut known_printed: HashSet<String> = HashSet::new();
    let mut new_violations = 0;
    for (class, cases) in &by_class {
        // Within a class, separate the known ones from the rest: a known finding
        // must not hide a different violation of the same class.
        let mut picked: Vec<&(Case, String)> = Vec::new();
        let mut seen_known: HashSet<String> = HashSet::new();
        let mut unknown_taken = 0;
        for cd in cases {
            match match_known(&known, prop.id(), class, &cd.1) {
                Some(k) => {
                    if seen_known.insert(k.what.clone()) {
                        picked.push(cd);
                    }
                }
                None => {
                    if unknown_taken < 2 {
                        unknown_taken += 1;
                        picked.push(cd);
                    }
                }
            }
        }
        for (case, _detail) in picked {
            let (min, res, evals) = minimise(prop, &mut pool, case, class, &known, 300);
            let (mclass, mdetail) = match &res.verdict {
                Verdict::Violation { class, detail } => (class.clone(), detail.clone()),
                _ if class == "hang" => {
                    // a wall-clock limit that is not exceeded again was machine load, not a hang
                    *a.inconclusive.entry("timeout (not reproduced)".into()).or_insert(0) += 1;
                    continue;
                }
                other => {
                    // did not reproduce in a fresh process: harness problem, not a verdict
                    a.harness.push(format!(
                        "violation {class} of seed {} did not reproduce on re-execution: {other:?}",
                        case.seed
                    ));
                    continue;
                }
            };
            // replay three times; must reproduce identically
            let mut stable = true;
            for _ in 0..2 {
                let r2 = pool.run(prop, &min);
                let same = if prop.violation_is_nondeterminism() {
                    // any observed difference between two runs is the violation; the
                    // differing position may itself vary from run to run
                    matches!(&r2.verdict, Verdict::Violation { .. } | Verdict::Pass)
                } else {
                    r2.verdict == res.verdict
                };
                if !same {
                    stable = false;
                }
            }
            if !stable {
                a.harness.push(format!(
                    "minimised case of seed {} does not replay identically",
                    case.seed
                ));
                continue;
            }
            if let Some(k) = match_known(&known, prop.id(), &mclass, &mdetail) {
                if known_printed.insert(k.what.clone()) {
                    println!("KNOWN-FINDING: property={} {}", prop.id(), k.what);
                }
                reported.push(json!({"known": k.what, "class": mclass, "seed": case.seed}));
                continue;
            }
            new_violations += 1;
            let dir = verif_root().join("replays");
            let _ = std::fs::create_dir_all(&dir);
            let path = dir.join(format!("{}-{}.json", prop.id(), case.seed));
            let mut j = min.to_json();
            j["violation"] = json!({"class": mclass, "detail": mdetail});
            j["original_ops"] = json!(case.ops.len());
            j["minimised_ops"] = json!(min.ops.len());
            j["shrink_evaluations"] = json!(evals);
            let _ = std::fs::write(&path, serde_json::to_string_pretty(&j).unwrap());
            println!("VIOLATION property={} replay={}", prop.id(), path.display());
            println!("  class={mclass} detail={mdetail}");
            reported.push(json!({"class": mclass, "detail": mdetail, "seed": case.seed, "replay": path}));
            exit = 1;
        }
    }
    pool.shutdown();
    if exit == 0 && !a.harness.is_empty() {
        for h in a.harness.iter().take(10) {
            println!("HARNESS-ERROR: {h}");
        }
        exit = 2;
    }
    // ---- evidence
    let tier = match opts.tier {
        Tier::Quick => "quick",
        Tier::Thorough => "thorough",
    };
    let mut faults = BTreeMap::new();
    let mut probes = BTreeMap::new();
    let mut sites = BTreeMap::new();
    let mut other = BTreeMap::new();
    for (k, v) in &a.counters {
        if let Some(x) = k.strip_prefix("fault:") {
            faults.insert(x.to_string(), *v);
        } else if let Some(x) = k.strip_prefix("probe:") {
            probes.insert(x.to_string(), *v);
        } else if let Some(x) = k.strip_prefix("site:") {
            sites.insert(x.to_string(), *v);
        } else {
            other.insert(k.clone(), *v);
        }
    }
    let ev = json!({
        "property_id": prop.id(),
        "tier": tier,
        "seed": opts.verif_seed,
        "level": prop.level(),
        "wall_s": wall_s,
        "violations": new_violations,
        "assumptions": prop.assumptions(),
        "coverage": {
            "evaluations": a.evaluations,
            "distinct_nontrivial": a.nontrivial_hashes.len(),
            "distinct_cases": a.case_hashes.len(),
            "rule": prop.rule(),
            "samples": a.samples,
            "technique": prop.technique(),
            "runs_per_hour": if wall_s > 0.0 { (a.evaluations as f64 / wall_s * 3600.0) as u64 } else { 0 },
            "simulated_time": {
                "unit": "scheduler steps (the only logical clock: no code path compares a time)",
                "threaded_runs": a.threaded_runs,
                "steps": a.steps,
                "handovers": a.handovers,
            },
            "distinct_interleavings": a.traces.len(),
            "distinct_states": a.states.len(),
            "faults_fired": faults,
            "probes": probes,
            "yield_sites_hit": sites,
            "counters": other,
            "inconclusive": a.inconclusive,
            "harness_errors": a.harness.len(),
            "known_findings_seen": a.known_hits,
            "reported": reported,
            "real_vs_stub": prop.real_vs_stub(),
        },
    });
    let mut ev = ev;
    for k in ["programs", "disagreements_checked"] {
        if let Some(v) = other.get(k) {
            ev["coverage"][k] = json!(v);
        }
    }
    if opts.write_evidence {
        let dir = verif_root().join("evidence");
        let _ = std::fs::create_dir_all(&dir);
        let _ = std::fs::write(
            dir.join(format!("{}.json", prop.id())),
            serde_json::to_string_pretty(&ev).unwrap(),
        );
    }
    println!(
        "property={} evaluations={} distinct_nontrivial={} states={} interleavings={} inconclusive={:?} wall={:.1}s exit={}",
        prop.id(),
        a.evaluations,
        a.nontrivial_hashes.len(),
        a.states.len(),
        a.traces.len(),
        a.inconclusive,
        wall_s,
        exit
    );
    exit
}

/// Determinism self-test: every case twice, in different worker processes;
/// full result records (verdict, log hash, states, trace hash) must be equal.
pub fn selftest(prop: &dyn Property, verif_seed: u64, n: u64, workers: usize) -> i32 {
    let next = Arc::new(AtomicU64::new(0));
    let bad = Arc::new(Mutex::new(Vec::new()));
    std::thread::scope(|sc| {
        for w in 0..workers {
            let next = next.clone();
            let bad = bad.clone();
            sc.spawn(move || {
                let mut p1 = Pool::new(w);
                let mut p2 = Pool::new((w + 1) % workers.max(1));
                loop {
                    let i = next.fetch_add(1, Ordering::Relaxed);
                    if i >= n {
                        break;
                    }
                    let seed = run_seed(verif_seed, prop.id(), i / prop.group());
                    let case = prop.generate(seed, i, Tier::Quick);
                    let case2 = prop.generate(seed, i, Tier::Quick);
                    if case.to_json() != case2.to_json() {
                        bad.lock().unwrap().push(format!("seed {seed}: generator is not deterministic"));
                        continue;
                    }
                    let r1 = p1.run(prop, &case);
                    let r2 = p2.run(prop, &case);
                    let j1 = r1.to_json();
                    let j2 = r2.to_json();
                    let strip = |mut j: Value| {
                        // probe counters include process-lifetime effects (lazy statics)
                        j
                            .as_object_mut()
                            .unwrap()
                            .remove("counters");
                        j
                    };
                    if strip(j1.clone()) != strip(j2.clone()) {
                        bad.lock().unwrap().push(format!(
                            "seed {seed} index {i}: {} vs {}",
                            j1.to_string().chars().take(300).collect::<String>(),
                            j2.to_string().chars().take(300).collect::<String>()
                        ));
                    }
                }
                p1.shutdown();
                p2.shutdown();
            });
        }
    });
    let bad = bad.lock().unwrap();
    println!("selftest property={} cases={} divergent={}", prop.id(), n, bad.len());
    for b in bad.iter().take(10) {
        println!("  DIVERGED {b}");
    }
    if bad.is_empty() { 0 } else { 2 }
}
