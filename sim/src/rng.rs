//! The only source of randomness of the harness: SplitMix64 streams derived
//! from one integer. Logging never draws from a stream.

#[derive(Clone, Debug)]
pub struct Rng(u64);

pub fn splitmix(state: &mut u64) -> u64 {
    *state = state.wrapping_add(0x9E37_79B9_7F4A_7C15);
    let mut z = *state;
    z = (z ^ (z >> 30)).wrapping_mul(0xBF58_476D_1CE4_E5B9);
    z = (z ^ (z >> 27)).wrapping_mul(0x94D0_49BB_1331_11EB);
    z ^ (z >> 31)
}

pub fn hash_str(s: &str) -> u64 {
    let mut h: u64 = 0xcbf2_9ce4_8422_2325;
    for b in s.bytes() {
        h ^= b as u64;
        h = h.wrapping_mul(0x0000_0100_0000_01B3);
    }
    h
}

pub fn hash_bytes(h0: u64, s: &[u8]) -> u64 {
    let mut h = h0;
    for b in s {
        h ^= *b as u64;
        h = h.wrapping_mul(0x0000_0100_0000_01B3);
    }
    h
}

/// Seed of the i-th run of a property under a given VERIF_SEED.
pub fn run_seed(verif_seed: u64, prop: &str, i: u64) -> u64 {
    let mut s = verif_seed ^ hash_str(prop) ^ i.wrapping_mul(0xD6E8_FEB8_6659_FD93);
    splitmix(&mut s)
}

impl Rng {
    pub fn new(seed: u64) -> Self {
        Rng(seed)
    }
    /// Independent sub-stream.
    pub fn fork(&self, label: &str) -> Rng {
        let mut s = self.0 ^ hash_str(label);
        Rng(splitmix(&mut s))
    }
    pub fn next(&mut self) -> u64 {
        splitmix(&mut self.0)
    }
    pub fn below(&mut self, n: usize) -> usize {
        if n == 0 {
            return 0;
        }
        (self.next() % n as u64) as usize
    }
    /// Inclusive range.
    pub fn range(&mut self, lo: i64, hi: i64) -> i64 {
        lo + (self.next() % ((hi - lo + 1) as u64)) as i64
    }
    pub fn chance(&mut self, num: u32, den: u32) -> bool {
        (self.next() % den as u64) < num as u64
    }
    pub fn pick<'a, T>(&mut self, v: &'a [T]) -> &'a T {
        &v[self.below(v.len())]
    }
    pub fn weighted(&mut self, w: &[u32]) -> usize {
        let total: u32 = w.iter().sum();
        if total == 0 {
            return 0;
        }
        let mut x = (self.next() % total as u64) as u32;
        for (i, wi) in w.iter().enumerate() {
            if x < *wi {
                return i;
            }
            x -= wi;
        }
        w.len() - 1
    }
    pub fn shuffle<T>(&mut self, v: &mut [T]) {
        for i in (1..v.len()).rev() {
            let j = self.below(i + 1);
            v.swap(i, j);
        }
    }
}
