//! Seeded workload generator (DESIGN §2.3). Produces egglog command text, one
//! command per op, over a randomly drawn signature. Swarm style: each run first
//! draws which feature families are enabled.

use crate::rng::Rng;
use crate::sexp::Sexp;

#[derive(Clone, Debug, PartialEq, Eq)]
pub enum Ty {
    Eq(usize),
    I64,
    /// container sort index
    Cont(usize),
}

#[derive(Clone, Debug)]
pub struct Ctor {
    pub name: String,
    pub args: Vec<Ty>,
    pub out: usize,
    pub cost: Option<u64>,
    pub unextractable: bool,
}

#[derive(Clone, Debug)]
pub struct Rel {
    pub name: String,
    pub args: Vec<Ty>,
}

#[derive(Clone, Debug, PartialEq)]
pub enum Merge {
    Min,
    Max,
    /// set-union / set-intersect over a `(Set i64)` sort
    SetUnion,
    SetIntersect,
    NoMerge,
    /// merge on eq-sort outputs is a union (functions returning eq sorts are not generated)
    BoolOr,
    BoolAnd,
}

#[derive(Clone, Debug)]
pub struct Func {
    pub name: String,
    pub args: Vec<Ty>,
    pub out: FuncOut,
    pub merge: Merge,
}

#[derive(Clone, Debug, PartialEq)]
pub enum FuncOut {
    I64,
    Bool,
    IntSet,
}

#[derive(Clone, Debug, PartialEq)]
pub enum ContKind {
    Vec,
    Set,
    MultiSet,
    Map, // i64 -> elem
    Pair, // (elem, i64)
}

#[derive(Clone, Debug)]
pub struct Cont {
    pub name: String,
    pub kind: ContKind,
    pub elem: Ty,
}

#[derive(Clone, Debug)]
pub struct Features {
    pub n_sorts: usize,
    pub relations: bool,
    pub functions: bool,
    pub nomerge: bool,
    pub rewrites: bool,
    pub birewrite: bool,
    pub guards: bool,
    pub subsume: bool,
    pub delete: bool,
    pub containers: bool,
    pub nested_containers: bool,
    pub pushpop: bool,
    pub extract: bool,
    pub prints: bool,
    pub schedules: bool,
    pub costs: bool,
    pub big_costs: bool,
    pub unextractable: bool,
    pub lets: bool,
    pub multi_rulesets: bool,
    pub checks: bool,
    pub naive_rules: bool,
    pub bool_funcs: bool,
    pub set_funcs: bool,
    pub max_rules: usize,
    pub max_cmds: usize,
    pub max_run: usize,
    pub facts_heavy: bool,
}

impl Features {
    /// Monotone fragment, swarm-drawn.
    pub fn draw(rng: &mut Rng) -> Features {
        Features {
            n_sorts: 1 + rng.weighted(&[5, 3, 1]),
            relations: rng.chance(3, 4),
            functions: rng.chance(1, 2),
            nomerge: false,
            rewrites: rng.chance(3, 4),
            birewrite: rng.chance(1, 4),
            guards: rng.chance(1, 2),
            subsume: false,
            delete: false,
            containers: false,
            nested_containers: false,
            pushpop: false,
            extract: rng.chance(1, 2),
            prints: rng.chance(1, 3),
            schedules: rng.chance(1, 2),
            costs: rng.chance(1, 2),
            big_costs: false,
            unextractable: false,
            lets: rng.chance(1, 2),
            multi_rulesets: rng.chance(1, 2),
            checks: rng.chance(3, 4),
            naive_rules: false,
            bool_funcs: rng.chance(1, 4),
            set_funcs: rng.chance(1, 5),
            max_rules: 1 + rng.below(4),
            max_cmds: 6 + rng.below(10),
            max_run: 1 + rng.below(3),
            facts_heavy: rng.chance(1, 4),
        }
    }
}

#[derive(Clone, Debug, Default)]
pub struct Sig {
    pub sorts: Vec<String>,
    pub conts: Vec<Cont>,
    pub ctors: Vec<Ctor>,
    pub rels: Vec<Rel>,
    pub funcs: Vec<Func>,
    pub rulesets: Vec<String>,
    pub has_intset: bool,
}

#[derive(Clone)]
pub struct Gen {
    pub rng: Rng,
    pub f: Features,
    pub sig: Sig,
    /// ground terms already mentioned, per eq sort
    pub pool: Vec<Vec<Sexp>>,
    /// names of top-level lets, with type
    pub lets: Vec<(String, Ty)>,
    pub fresh: usize,
    pub rule_count: usize,
    pub live_rulesets: Vec<String>,
    /// (body facts, vars) of the most recent rule, for seeding facts
    pub last_body: Option<(Vec<Sexp>, Vec<(String, Ty)>)>,
}

fn a(s: &str) -> Sexp {
    Sexp::atom(s)
}

impl Gen {
    pub fn new(rng: Rng, f: Features) -> Gen {
        Gen {
            rng,
            f,
            sig: Sig::default(),
            pool: Vec::new(),
            lets: Vec::new(),
            fresh: 0,
            rule_count: 0,
            live_rulesets: Vec::new(),
            last_body: None,
        }
    }

    pub fn ty_name(&self, t: &Ty) -> String {
        match t {
            Ty::Eq(i) => self.sig.sorts[*i].clone(),
            Ty::I64 => "i64".into(),
            Ty::Cont(i) => self.sig.conts[*i].name.clone(),
        }
    }

    /// Declarations. Returns the ops.
    pub fn gen_decls(&mut self) -> Vec<Sexp> {
        let mut ops = Vec::new();
        let ns = self.f.n_sorts;
        for i in 0..ns {
            let name = format!("S{i}");
            self.sig.sorts.push(name.clone());
            self.pool.push(Vec::new());
            ops.push(Sexp::call("sort", vec![a(&name)]));
        }
        if self.f.set_funcs || self.f.containers {
            // (Set i64) for set-union/intersect lattices
            ops.push(Sexp::call(
                "sort",
                vec![a("IntSet"), Sexp::call("Set", vec![a("i64")])],
            ));
            self.sig.has_intset = true;
        }
        if self.f.containers {
            let kinds = [
                ContKind::Vec,
                ContKind::Set,
                ContKind::MultiSet,
                ContKind::Map,
                ContKind::Pair,
            ];
            let n = 1 + self.rng.below(2);
            for k in 0..n {
                let kind = kinds[self.rng.weighted(&[4, 4, 2, 2, 1])].clone();
                let elem = Ty::Eq(self.rng.below(ns));
                let name = format!("C{k}");
                let en = self.ty_name(&elem);
                let decl = match kind {
                    ContKind::Vec => Sexp::call("Vec", vec![a(&en)]),
                    ContKind::Set => Sexp::call("Set", vec![a(&en)]),
                    ContKind::MultiSet => Sexp::call("MultiSet", vec![a(&en)]),
                    ContKind::Map => Sexp::call("Map", vec![a("i64"), a(&en)]),
                    ContKind::Pair => Sexp::call("Pair", vec![a(&en), a("i64")]),
                };
                ops.push(Sexp::call("sort", vec![a(&name), decl]));
                self.sig.conts.push(Cont { name, kind, elem });
            }
            if self.f.nested_containers && !self.sig.conts.is_empty() {
                let inner = self.rng.below(self.sig.conts.len());
                let name = format!("C{}", self.sig.conts.len());
                let kind = if self.rng.chance(1, 2) {
                    ContKind::Vec
                } else {
                    ContKind::Set
                };
                let decl = Sexp::call(
                    if kind == ContKind::Vec { "Vec" } else { "Set" },
                    vec![a(&self.sig.conts[inner].name.clone())],
                );
                ops.push(Sexp::call("sort", vec![a(&name), decl]));
                self.sig.conts.push(Cont {
                    name,
                    kind,
                    elem: Ty::Cont(inner),
                });
            }
        }
        // constructors
        let mut cid = 0;
        for s in 0..ns {
            // leaves
            let nleaf = 2 + self.rng.below(2);
            for _ in 0..nleaf {
                self.add_ctor(&mut ops, &mut cid, vec![], s);
            }
            if self.rng.chance(2, 3) {
                self.add_ctor(&mut ops, &mut cid, vec![Ty::I64], s);
            }
            let nfun = 1 + self.rng.below(3);
            for _ in 0..nfun {
                let arity = 1 + self.rng.weighted(&[3, 4, 1]);
                let mut args = Vec::new();
                for _ in 0..arity {
                    if self.rng.chance(1, 8) {
                        args.push(Ty::I64);
                    } else {
                        args.push(Ty::Eq(self.rng.below(ns)));
                    }
                }
                self.add_ctor(&mut ops, &mut cid, args, s);
            }
            // constructors taking containers
            let conts: Vec<usize> = (0..self.sig.conts.len()).collect();
            for c in conts {
                if self.rng.chance(2, 3) {
                    let mut args = vec![Ty::Cont(c)];
                    if self.rng.chance(1, 3) {
                        args.push(Ty::Eq(self.rng.below(ns)));
                    }
                    self.add_ctor(&mut ops, &mut cid, args, s);
                }
            }
        }
        if self.f.relations {
            let n = 1 + self.rng.below(3);
            for i in 0..n {
                let arity = 1 + self.rng.below(3);
                let mut args = Vec::new();
                for _ in 0..arity {
                    args.push(if self.rng.chance(1, 3) {
                        Ty::I64
                    } else if !self.sig.conts.is_empty() && self.rng.chance(1, 4) {
                        Ty::Cont(self.rng.below(self.sig.conts.len()))
                    } else {
                        Ty::Eq(self.rng.below(ns))
                    });
                }
                let name = format!("R{i}");
                ops.push(Sexp::call(
                    "relation",
                    vec![
                        a(&name),
                        Sexp::list(args.iter().map(|t| a(&self.ty_name(t))).collect()),
                    ],
                ));
                self.sig.rels.push(Rel { name, args });
            }
        }
        if self.f.functions {
            let n = 1 + self.rng.below(3);
            for i in 0..n {
                let arity = 1 + self.rng.below(2);
                let mut args = Vec::new();
                for _ in 0..arity {
                    args.push(if self.rng.chance(1, 3) {
                        Ty::I64
                    } else if !self.sig.conts.is_empty() && self.rng.chance(1, 5) {
                        Ty::Cont(self.rng.below(self.sig.conts.len()))
                    } else {
                        Ty::Eq(self.rng.below(ns))
                    });
                }
                let (out, merge) = if self.f.nomerge && self.rng.chance(1, 3) {
                    (FuncOut::I64, Merge::NoMerge)
                } else if self.f.set_funcs && self.sig.has_intset && self.rng.chance(1, 3) {
                    (
                        FuncOut::IntSet,
                        if self.rng.chance(2, 3) {
                            Merge::SetUnion
                        } else {
                            Merge::SetIntersect
                        },
                    )
                } else if self.f.bool_funcs && self.rng.chance(1, 3) {
                    (
                        FuncOut::Bool,
                        if self.rng.chance(1, 2) {
                            Merge::BoolOr
                        } else {
                            Merge::BoolAnd
                        },
                    )
                } else {
                    (
                        FuncOut::I64,
                        if self.rng.chance(1, 2) {
                            Merge::Min
                        } else {
                            Merge::Max
                        },
                    )
                };
                let name = format!("f{i}");
                let outname = match out {
                    FuncOut::I64 => "i64",
                    FuncOut::Bool => "bool",
                    FuncOut::IntSet => "IntSet",
                };
                let mut decl = vec![
                    a(&name),
                    Sexp::list(args.iter().map(|t| a(&self.ty_name(t))).collect()),
                    a(outname),
                ];
                match merge {
                    Merge::Min => {
                        decl.push(a(":merge"));
                        decl.push(Sexp::call("min", vec![a("old"), a("new")]));
                    }
                    Merge::Max => {
                        decl.push(a(":merge"));
                        decl.push(Sexp::call("max", vec![a("old"), a("new")]));
                    }
                    Merge::SetUnion => {
                        decl.push(a(":merge"));
                        decl.push(Sexp::call("set-union", vec![a("old"), a("new")]));
                    }
                    Merge::SetIntersect => {
                        decl.push(a(":merge"));
                        decl.push(Sexp::call("set-intersect", vec![a("old"), a("new")]));
                    }
                    Merge::BoolOr => {
                        decl.push(a(":merge"));
                        decl.push(Sexp::call("or", vec![a("old"), a("new")]));
                    }
                    Merge::BoolAnd => {
                        decl.push(a(":merge"));
                        decl.push(Sexp::call("and", vec![a("old"), a("new")]));
                    }
                    Merge::NoMerge => {
                        decl.push(a(":no-merge"));
                    }
                }
                ops.push(Sexp::call("function", decl));
                self.sig.funcs.push(Func {
                    name,
                    args,
                    out,
                    merge,
                });
            }
        }
        let nr = if self.f.multi_rulesets { 2 + self.rng.below(2) } else { 1 };
        for i in 0..nr {
            let name = format!("r{i}");
            ops.push(Sexp::call("ruleset", vec![a(&name)]));
            self.sig.rulesets.push(name);
        }
        ops
    }

    fn add_ctor(&mut self, ops: &mut Vec<Sexp>, cid: &mut usize, args: Vec<Ty>, out: usize) {
        let name = format!("K{}", *cid);
        *cid += 1;
        let mut decl = vec![
            a(&name),
            Sexp::list(args.iter().map(|t| a(&self.ty_name(t))).collect()),
            a(&self.sig.sorts[out].clone()),
        ];
        let mut cost = None;
        if self.f.costs && self.rng.chance(1, 2) {
            let c = if self.f.big_costs && self.rng.chance(1, 3) {
                // near the saturation point of u64
                match self.rng.below(4) {
                    0 => u64::MAX / 2,
                    1 => u64::MAX / 3 + 1,
                    2 => (1u64 << 63) - 1,
                    _ => (1u64 << 62) + self.rng.below(5) as u64,
                }
            } else {
                self.rng.weighted(&[3, 3, 2, 1, 1, 1]) as u64 * if self.rng.chance(1, 5) { 7 } else { 1 }
            };
            cost = Some(c);
            decl.push(a(":cost"));
            decl.push(a(&c.to_string()));
        }
        let mut unextractable = false;
        if self.f.unextractable && self.rng.chance(1, 6) {
            unextractable = true;
            decl.push(a(":unextractable"));
        }
        ops.push(Sexp::call("constructor", decl));
        self.sig.ctors.push(Ctor {
            name,
            args,
            out,
            cost,
            unextractable,
        });
    }

    pub fn small_int(&mut self) -> i64 {
        self.rng.weighted(&[4, 4, 3, 2, 1, 1]) as i64
    }

    /// A ground value of the given type.
    pub fn ground(&mut self, t: &Ty, depth: usize) -> Sexp {
        match t {
            Ty::I64 => Sexp::int(self.small_int()),
            Ty::Eq(s) => self.ground_term(*s, depth),
            Ty::Cont(c) => {
                let c = self.sig.conts[*c].clone();
                let n = self.rng.weighted(&[1, 3, 3, 1]);
                match c.kind {
                    ContKind::Vec => {
                        let xs = (0..n).map(|_| self.ground(&c.elem, depth)).collect();
                        if n == 0 {
                            Sexp::call("vec-empty", vec![])
                        } else {
                            Sexp::call("vec-of", xs)
                        }
                    }
                    ContKind::Set => {
                        let xs = (0..n).map(|_| self.ground(&c.elem, depth)).collect();
                        if n == 0 {
                            Sexp::call("set-empty", vec![])
                        } else {
                            Sexp::call("set-of", xs)
                        }
                    }
                    ContKind::MultiSet => {
                        let xs = (0..n.max(1)).map(|_| self.ground(&c.elem, depth)).collect();
                        Sexp::call("multiset-of", xs)
                    }
                    ContKind::Map => {
                        let mut m = Sexp::call("map-empty", vec![]);
                        for k in 0..n {
                            let v = self.ground(&c.elem, depth);
                            m = Sexp::call("map-insert", vec![m, Sexp::int(k as i64), v]);
                        }
                        m
                    }
                    ContKind::Pair => {
                        let x = self.ground(&c.elem, depth);
                        Sexp::call("pair", vec![x, Sexp::int(self.small_int())])
                    }
                }
            }
        }
    }

    pub fn ground_term(&mut self, s: usize, depth: usize) -> Sexp {
        if !self.pool[s].is_empty() && self.rng.chance(2, 5) {
            let p = &self.pool[s];
            return p[self.rng.below(p.len())].clone();
        }
        if !self.lets.is_empty() && self.rng.chance(1, 5) {
            let cands: Vec<&(String, Ty)> =
                self.lets.iter().filter(|(_, t)| *t == Ty::Eq(s)).collect();
            if !cands.is_empty() {
                return a(&cands[self.rng.below(cands.len())].0.clone());
            }
        }
        let cands: Vec<Ctor> = self
            .sig
            .ctors
            .iter()
            .filter(|c| {
                c.out == s
                    && (depth > 0 || c.args.iter().all(|t| matches!(t, Ty::I64)))
                    && (depth > 0 || c.args.len() <= 1)
            })
            .cloned()
            .collect();
        if cands.is_empty() {
            // every sort has leaves
            let leaf = self
                .sig
                .ctors
                .iter()
                .find(|c| c.out == s && c.args.is_empty())
                .unwrap()
                .name
                .clone();
            return Sexp::call(&leaf, vec![]);
        }
        // prefer applications while there is depth left
        let apps: Vec<Ctor> = cands.iter().filter(|c| !c.args.is_empty()).cloned().collect();
        let c = if depth > 0 && !apps.is_empty() && self.rng.chance(3, 4) {
            apps[self.rng.below(apps.len())].clone()
        } else {
            cands[self.rng.below(cands.len())].clone()
        };
        let args = c
            .args
            .iter()
            .map(|t| self.ground(t, depth.saturating_sub(1)))
            .collect();
        let t = Sexp::call(&c.name, args);
        if self.pool[s].len() < 12 && !contains_let(&t, &self.lets) {
            self.pool[s].push(t.clone());
        }
        t
    }

    fn fresh_var(&mut self, p: &str) -> String {
        self.fresh += 1;
        format!("{p}{}", self.fresh)
    }

    /// A pattern of eq sort `s`; binds variables into `vars`.
    fn pattern(&mut self, s: usize, depth: usize, vars: &mut Vec<(String, Ty)>) -> Sexp {
        let existing: Vec<String> = vars
            .iter()
            .filter(|(_, t)| *t == Ty::Eq(s))
            .map(|(n, _)| n.clone())
            .collect();
        if depth == 0 || self.rng.chance(2, 5) {
            if !existing.is_empty() && self.rng.chance(1, 3) {
                return a(&existing[self.rng.below(existing.len())]);
            }
            if self.rng.chance(1, 6) {
                // ground leaf constant in a pattern
                return self.ground_term(s, 0);
            }
            let v = self.fresh_var("x");
            vars.push((v.clone(), Ty::Eq(s)));
            return a(&v);
        }
        let cands: Vec<Ctor> = self
            .sig
            .ctors
            .iter()
            .filter(|c| c.out == s && c.args.iter().all(|t| !matches!(t, Ty::Cont(_))))
            .cloned()
            .collect();
        let c = cands[self.rng.below(cands.len())].clone();
        let args = c
            .args
            .iter()
            .map(|t| self.pat_arg(t, depth - 1, vars))
            .collect();
        Sexp::call(&c.name, args)
    }

    /// A pattern that is a constructor application at the top.
    pub fn ctor_pattern(&mut self, s: usize, depth: usize, vars: &mut Vec<(String, Ty)>) -> Sexp {
        let cands: Vec<Ctor> = self
            .sig
            .ctors
            .iter()
            .filter(|c| c.out == s)
            .cloned()
            .collect();
        let apps: Vec<Ctor> = cands.iter().filter(|c| !c.args.is_empty()).cloned().collect();
        let c = if !apps.is_empty() && self.rng.chance(5, 6) {
            apps[self.rng.below(apps.len())].clone()
        } else {
            cands[self.rng.below(cands.len())].clone()
        };
        let args = c
            .args
            .iter()
            .map(|t| self.pat_arg(t, depth.saturating_sub(1), vars))
            .collect();
        Sexp::call(&c.name, args)
    }

    fn pat_arg(&mut self, t: &Ty, depth: usize, vars: &mut Vec<(String, Ty)>) -> Sexp {
        match t {
            Ty::Eq(s) => self.pattern(*s, depth, vars),
            Ty::I64 => {
                if self.rng.chance(1, 4) {
                    Sexp::int(self.small_int())
                } else {
                    let ex: Vec<String> = vars
                        .iter()
                        .filter(|(_, t)| *t == Ty::I64)
                        .map(|(n, _)| n.clone())
                        .collect();
                    if !ex.is_empty() && self.rng.chance(1, 3) {
                        a(&ex[self.rng.below(ex.len())])
                    } else {
                        let v = self.fresh_var("n");
                        vars.push((v.clone(), Ty::I64));
                        a(&v)
                    }
                }
            }
            Ty::Cont(c) => {
                if self.rng.chance(1, 3) {
                    // a ground container: matchable only modulo the current equalities
                    return self.ground(&Ty::Cont(*c), 1);
                }
                let ex: Vec<String> = vars
                    .iter()
                    .filter(|(_, t)| *t == Ty::Cont(*c))
                    .map(|(n, _)| n.clone())
                    .collect();
                if !ex.is_empty() && self.rng.chance(1, 3) {
                    a(&ex[self.rng.below(ex.len())])
                } else {
                    let v = self.fresh_var("c");
                    vars.push((v.clone(), Ty::Cont(*c)));
                    a(&v)
                }
            }
        }
    }

    /// A term over bound variables (rule heads, rewrite right-hand sides).
    fn head_term(&mut self, t: &Ty, depth: usize, vars: &[(String, Ty)]) -> Sexp {
        let ex: Vec<String> = vars
            .iter()
            .filter(|(_, vt)| vt == t)
            .map(|(n, _)| n.clone())
            .collect();
        match t {
            Ty::I64 => {
                if !ex.is_empty() && self.rng.chance(2, 3) {
                    let v = a(&ex[self.rng.below(ex.len())]);
                    match self.rng.below(5) {
                        0 => Sexp::call("+", vec![v, Sexp::int(1)]),
                        1 if ex.len() > 1 => {
                            Sexp::call("min", vec![v, a(&ex[self.rng.below(ex.len())])])
                        }
                        _ => v,
                    }
                } else {
                    Sexp::int(self.small_int())
                }
            }
            Ty::Eq(s) => {
                if !ex.is_empty() && (depth == 0 || self.rng.chance(1, 2)) {
                    return a(&ex[self.rng.below(ex.len())]);
                }
                let cands: Vec<Ctor> = self
                    .sig
                    .ctors
                    .iter()
                    .filter(|c| c.out == *s && (depth > 0 || c.args.is_empty()))
                    .cloned()
                    .collect();
                if cands.is_empty() {
                    return self.ground_term(*s, 0);
                }
                let c = cands[self.rng.below(cands.len())].clone();
                let args = c
                    .args
                    .iter()
                    .map(|t| self.head_term(t, depth.saturating_sub(1), vars))
                    .collect();
                Sexp::call(&c.name, args)
            }
            Ty::Cont(c) => {
                if !ex.is_empty() && self.rng.chance(2, 3) {
                    return a(&ex[self.rng.below(ex.len())]);
                }
                let cc = self.sig.conts[*c].clone();
                let n = 1 + self.rng.below(2);
                match cc.kind {
                    ContKind::Vec => Sexp::call(
                        "vec-of",
                        (0..n).map(|_| self.head_term(&cc.elem, 0, vars)).collect(),
                    ),
                    ContKind::Set => Sexp::call(
                        "set-of",
                        (0..n).map(|_| self.head_term(&cc.elem, 0, vars)).collect(),
                    ),
                    ContKind::MultiSet => Sexp::call(
                        "multiset-of",
                        (0..n).map(|_| self.head_term(&cc.elem, 0, vars)).collect(),
                    ),
                    ContKind::Map => Sexp::call(
                        "map-insert",
                        vec![
                            Sexp::call("map-empty", vec![]),
                            Sexp::int(self.small_int()),
                            self.head_term(&cc.elem, 0, vars),
                        ],
                    ),
                    ContKind::Pair => Sexp::call(
                        "pair",
                        vec![self.head_term(&cc.elem, 0, vars), Sexp::int(self.small_int())],
                    ),
                }
            }
        }
    }

    /// Body facts; returns (facts, bound variables, constructor atoms usable for subsume/delete).
    pub fn body(&mut self, natoms: usize) -> (Vec<Sexp>, Vec<(String, Ty)>, Vec<Sexp>) {
        let mut facts = Vec::new();
        let mut vars: Vec<(String, Ty)> = Vec::new();
        let mut ctor_atoms = Vec::new();
        let ns = self.sig.sorts.len();
        for i in 0..natoms {
            // choose atom kind
            let w = [
                6,
                if self.sig.rels.is_empty() { 0 } else { 4 },
                if self.sig.funcs.is_empty() { 0 } else { 3 },
            ];
            match self.rng.weighted(&w) {
                0 => {
                    // constructor pattern, connected to earlier variables when possible
                    let s = if i > 0 {
                        match vars.iter().find(|(_, t)| matches!(t, Ty::Eq(_))) {
                            Some((_, Ty::Eq(s))) if self.rng.chance(2, 3) => *s,
                            _ => self.rng.below(ns),
                        }
                    } else {
                        self.rng.below(ns)
                    };
                    let depth = 1 + self.rng.weighted(&[3, 1]);
                    let snapshot = vars.len();
                    let p = self.ctor_pattern(s, depth, &mut vars);
                    let p = connect(p, &mut vars, snapshot, &mut self.rng);
                    let only_vars = p.args().iter().all(|x| x.as_atom().is_some());
                    if only_vars {
                        ctor_atoms.push(p.clone());
                    }
                    if self.rng.chance(1, 2) {
                        let v = self.fresh_var("e");
                        vars.push((v.clone(), Ty::Eq(s)));
                        facts.push(Sexp::call("=", vec![a(&v), p]));
                    } else {
                        facts.push(p);
                    }
                }
                1 => {
                    let r = self.sig.rels[self.rng.below(self.sig.rels.len())].clone();
                    let snapshot = vars.len();
                    let args = r.args.iter().map(|t| self.pat_arg(t, 1, &mut vars)).collect();
                    let p = connect(Sexp::call(&r.name, args), &mut vars, snapshot, &mut self.rng);
                    facts.push(p);
                }
                _ => {
                    let f = self.sig.funcs[self.rng.below(self.sig.funcs.len())].clone();
                    let snapshot = vars.len();
                    let args: Vec<Sexp> =
                        f.args.iter().map(|t| self.pat_arg(t, 1, &mut vars)).collect();
                    let call = connect(Sexp::call(&f.name, args), &mut vars, snapshot, &mut self.rng);
                    let args: Vec<Sexp> = call.args().to_vec();
                    let v = self.fresh_var("v");
                    if f.out == FuncOut::I64 {
                        vars.push((v.clone(), Ty::I64));
                    }
                    facts.push(Sexp::call("=", vec![a(&v), Sexp::call(&f.name, args)]));
                }
            }
        }
        if self.f.guards {
            let ints: Vec<String> = vars
                .iter()
                .filter(|(_, t)| *t == Ty::I64)
                .map(|(n, _)| n.clone())
                .collect();
            if !ints.is_empty() && self.rng.chance(1, 2) {
                let v = a(&ints[self.rng.below(ints.len())]);
                let k = Sexp::int(self.small_int());
                let op = *self.rng.pick(&["<", "<=", ">", ">=", "!="]);
                facts.push(Sexp::call(op, vec![v, k]));
            }
            if ints.len() >= 1 && self.rng.chance(1, 4) {
                // computed binding
                let v = a(&ints[self.rng.below(ints.len())]);
                let w = self.fresh_var("m");
                vars.push((w.clone(), Ty::I64));
                facts.push(Sexp::call(
                    "=",
                    vec![a(&w), Sexp::call("+", vec![v, Sexp::int(self.small_int())])],
                ));
            }
            let eqs: Vec<(String, Ty)> = vars
                .iter()
                .filter(|(_, t)| matches!(t, Ty::Eq(_)))
                .cloned()
                .collect();
            if eqs.len() >= 2 && self.rng.chance(1, 5) {
                let (x, tx) = eqs[self.rng.below(eqs.len())].clone();
                let same: Vec<&(String, Ty)> =
                    eqs.iter().filter(|(n, t)| *t == tx && *n != x).collect();
                if !same.is_empty() {
                    let y = same[self.rng.below(same.len())].0.clone();
                    facts.push(Sexp::call("!=", vec![a(&x), a(&y)]));
                }
            }
        }
        (facts, vars, ctor_atoms)
    }

    pub fn actions(&mut self, vars: &[(String, Ty)], ctor_atoms: &[Sexp]) -> Vec<Sexp> {
        let mut acts = Vec::new();
        let n = 1 + self.rng.weighted(&[5, 3, 1]);
        let eqvars: Vec<(String, Ty)> = vars
            .iter()
            .filter(|(_, t)| matches!(t, Ty::Eq(_)))
            .cloned()
            .collect();
        for _ in 0..n {
            let w = [
                if eqvars.is_empty() { 0 } else { 5 }, // union
                if self.sig.rels.is_empty() { 0 } else { 4 }, // relation insert
                if self.sig.funcs.is_empty() { 0 } else { 3 }, // set
                2, // term insert
                if self.f.subsume && !ctor_atoms.is_empty() { 3 } else { 0 },
                if self.f.delete && !ctor_atoms.is_empty() { 2 } else { 0 },
            ];
            match self.rng.weighted(&w) {
                0 => {
                    let (x, t) = eqvars[self.rng.below(eqvars.len())].clone();
                    let d = 1 + self.rng.below(2);
                    let rhs = self.head_term(&t, d, vars);
                    acts.push(Sexp::call("union", vec![a(&x), rhs]));
                }
                1 => {
                    let r = self.sig.rels[self.rng.below(self.sig.rels.len())].clone();
                    let args = r.args.iter().map(|t| self.head_term(t, 1, vars)).collect();
                    acts.push(Sexp::call(&r.name, args));
                }
                2 => {
                    let f = self.sig.funcs[self.rng.below(self.sig.funcs.len())].clone();
                    let args = f.args.iter().map(|t| self.head_term(t, 1, vars)).collect();
                    let v = self.func_value(&f, vars);
                    acts.push(Sexp::call("set", vec![Sexp::call(&f.name, args), v]));
                }
                3 => {
                    let s = self.rng.below(self.sig.sorts.len());
                    let d = 1 + self.rng.below(2);
                    let t = self.head_term(&Ty::Eq(s), d, vars);
                    if t.as_list().is_some() {
                        acts.push(t);
                    }
                }
                k => {
                    // A tuple is touched by at most one of delete / subsume / insert per
                    // rule: the engine's order inside one iteration (deletes first) is
                    // not promised by any property.
                    let at = ctor_atoms[self.rng.below(ctor_atoms.len())].clone();
                    let touched = acts.iter().any(|a: &Sexp| {
                        a.args().first() == Some(&at) || *a == at
                    });
                    if !touched {
                        acts.push(Sexp::call(if k == 4 { "subsume" } else { "delete" }, vec![at]));
                    }
                }
            }
        }
        if acts.is_empty() {
            let s = self.rng.below(self.sig.sorts.len());
            acts.push(self.ground_term(s, 1));
        }
        acts
    }

    pub fn func_value(&mut self, f: &Func, vars: &[(String, Ty)]) -> Sexp {
        match f.out {
            FuncOut::I64 => self.head_term(&Ty::I64, 1, vars),
            FuncOut::Bool => a(if self.rng.chance(1, 2) { "true" } else { "false" }),
            FuncOut::IntSet => {
                let n = self.rng.below(3);
                if n == 0 {
                    Sexp::call("set-empty", vec![])
                } else {
                    Sexp::call(
                        "set-of",
                        (0..n).map(|_| Sexp::int(self.small_int())).collect(),
                    )
                }
            }
        }
    }

    pub fn pick_ruleset(&mut self) -> String {
        let r = &self.sig.rulesets;
        r[self.rng.below(r.len())].clone()
    }

    pub fn gen_rule(&mut self) -> Sexp {
        self.rule_count += 1;
        let rs = self.pick_ruleset();
        if !self.live_rulesets.contains(&rs) {
            self.live_rulesets.push(rs.clone());
        }
        if self.f.rewrites && self.rng.chance(1, 2) {
            // rewrite / birewrite
            let s = self.rng.below(self.sig.sorts.len());
            let mut vars = Vec::new();
            let d = 1 + self.rng.weighted(&[3, 1]);
            let lhs = self.ctor_pattern(s, d, &mut vars);
            let bi = self.f.birewrite && self.rng.chance(1, 4);
            let rhs = if bi {
                // both sides must bind the same variables: permute/duplicate structure
                let mut v2 = vars.clone();
                let t = self.head_term(&Ty::Eq(s), 2, &v2);
                // ensure every var of lhs appears in rhs, else fall back to rewrite
                let all = vars.iter().all(|(n, _)| mentions(&t, n));
                v2.clear();
                if all && t.as_list().is_some() { Some(t) } else { None }
            } else {
                None
            };
            let (kw, rhs) = match rhs {
                Some(t) => ("birewrite", t),
                None => {
                    let d = 1 + self.rng.below(2);
                    ("rewrite", self.head_term(&Ty::Eq(s), d, &vars))
                }
            };
            let mut v = vec![a(kw), lhs.clone(), rhs];
            if self.f.guards && self.rng.chance(1, 4) {
                let ints: Vec<String> = vars
                    .iter()
                    .filter(|(_, t)| *t == Ty::I64)
                    .map(|(n, _)| n.clone())
                    .collect();
                if !ints.is_empty() {
                    let c = Sexp::call(
                        *self.rng.pick(&["<", ">", "!="]),
                        vec![a(&ints[0]), Sexp::int(self.small_int())],
                    );
                    v.push(a(":when"));
                    v.push(Sexp::list(vec![c]));
                }
            }
            if self.f.subsume
                && kw == "rewrite"
                && self.rng.chance(1, 3)
                && lhs.args().iter().all(|x| x.as_atom().is_some())
            {
                v.push(a(":subsume"));
            }
            v.push(a(":ruleset"));
            v.push(a(&rs));
            self.last_body = Some((vec![lhs.clone()], vars.clone()));
            return Sexp::List(v);
        }
        let natoms = 1 + self.rng.weighted(&[4, 4, 1]);
        let (facts, vars, ctor_atoms) = self.body(natoms);
        self.last_body = Some((facts.clone(), vars.clone()));
        let acts = self.actions(&vars, &ctor_atoms);
        let mut v = vec![a("rule"), Sexp::list(facts), Sexp::list(acts)];
        v.push(a(":ruleset"));
        v.push(a(&rs));
        if self.f.naive_rules && self.rng.chance(1, 3) {
            v.push(a(":naive"));
        }
        Sexp::List(v)
    }

    fn instantiate(
        &mut self,
        p: &Sexp,
        subst: &mut std::collections::HashMap<String, Sexp>,
        vars: &[(String, Ty)],
    ) -> Sexp {
        match p {
            Sexp::Atom(x) => {
                if let Some((_, t)) = vars.iter().find(|(n, _)| n == x) {
                    if let Some(v) = subst.get(x) {
                        return v.clone();
                    }
                    let v = self.ground(&t.clone(), 1);
                    subst.insert(x.clone(), v.clone());
                    v
                } else {
                    p.clone()
                }
            }
            Sexp::List(v) => Sexp::List(v.iter().map(|x| self.instantiate(x, subst, vars)).collect()),
            _ => p.clone(),
        }
    }

    /// Ground facts that make the most recent rule's body (partly) matchable.
    pub fn seed_facts(&mut self) -> Vec<Sexp> {
        let Some((facts, vars)) = self.last_body.clone() else {
            return vec![];
        };
        let mut out = Vec::new();
        let mut subst = std::collections::HashMap::new();
        for f in &facts {
            let (target, is_lookup) = match f.head() {
                Some("=") => {
                    let args = f.args();
                    if args.len() == 2 && args[1].as_list().is_some() {
                        (args[1].clone(), true)
                    } else {
                        continue;
                    }
                }
                Some(h) if ["<", "<=", ">", ">=", "!="].contains(&h) => continue,
                Some(_) => (f.clone(), false),
                None => continue,
            };
            let head = target.head().unwrap_or("").to_string();
            if let Some(func) = self.sig.funcs.iter().find(|x| x.name == head).cloned() {
                let inst = self.instantiate(&target, &mut subst, &vars);
                let v = self.func_value(&func, &[]);
                out.push(Sexp::call("set", vec![inst, v]));
            } else if self.sig.ctors.iter().any(|c| c.name == head)
                || self.sig.rels.iter().any(|r| r.name == head)
            {
                let _ = is_lookup;
                let inst = self.instantiate(&target, &mut subst, &vars);
                out.push(inst);
            }
        }
        out
    }

    /// A top-level write.
    pub fn gen_fact(&mut self) -> Sexp {
        let ns = self.sig.sorts.len();
        let w = [
            5, // term insert
            4, // union
            if self.sig.rels.is_empty() { 0 } else { 4 },
            if self.sig.funcs.is_empty() { 0 } else { 4 },
            if self.f.lets { 2 } else { 0 },
            if self.f.subsume { 1 } else { 0 },
            if self.f.delete { 1 } else { 0 },
        ];
        match self.rng.weighted(&w) {
            0 => {
                let s = self.rng.below(ns);
                let d = 1 + self.rng.below(3);
                let mut t = self.ground_term(s, d);
                if t.as_list().is_none() {
                    t = self.force_app(s);
                }
                t
            }
            1 => {
                let s = self.rng.below(ns);
                let t1 = self.ground_term(s, 2);
                let t2 = self.ground_term(s, 2);
                Sexp::call("union", vec![t1, t2])
            }
            2 => {
                let r = self.sig.rels[self.rng.below(self.sig.rels.len())].clone();
                let args = r.args.iter().map(|t| self.ground(t, 2)).collect();
                Sexp::call(&r.name, args)
            }
            3 => {
                let f = self.sig.funcs[self.rng.below(self.sig.funcs.len())].clone();
                let args = f.args.iter().map(|t| self.ground(t, 2)).collect();
                let v = self.func_value(&f, &[]);
                Sexp::call("set", vec![Sexp::call(&f.name, args), v])
            }
            4 => {
                let s = self.rng.below(ns);
                let t = self.force_app(s);
                let name = format!("$g{}", self.lets.len());
                self.lets.push((name.clone(), Ty::Eq(s)));
                Sexp::call("let", vec![a(&name), t])
            }
            5 => {
                let s = self.rng.below(ns);
                let t = self.force_app(s);
                Sexp::call("subsume", vec![t])
            }
            _ => {
                let s = self.rng.below(ns);
                let t = self.force_app(s);
                Sexp::call("delete", vec![t])
            }
        }
    }

    /// A ground constructor application (never a bare let name).
    pub fn force_app(&mut self, s: usize) -> Sexp {
        for _ in 0..8 {
            let t = self.ground_term(s, 2);
            if t.as_list().is_some() {
                return t;
            }
        }
        let leaf = self
            .sig
            .ctors
            .iter()
            .find(|c| c.out == s && c.args.is_empty())
            .unwrap()
            .name
            .clone();
        Sexp::call(&leaf, vec![])
    }

    pub fn gen_run(&mut self) -> Sexp {
        let rs = if !self.live_rulesets.is_empty() && self.rng.chance(7, 8) {
            self.live_rulesets[self.rng.below(self.live_rulesets.len())].clone()
        } else {
            self.pick_ruleset()
        };
        let n = 1 + self.rng.below(self.f.max_run);
        if self.f.schedules && self.rng.chance(1, 3) {
            let inner = Sexp::call("run", vec![a(&rs)]);
            let s = match self.rng.below(4) {
                0 => Sexp::call("repeat", vec![Sexp::int(n as i64), inner]),
                1 => {
                    let rs2 = self.pick_ruleset();
                    Sexp::call("seq", vec![inner, Sexp::call("run", vec![a(&rs2)])])
                }
                2 => {
                    let rs2 = self.pick_ruleset();
                    Sexp::call(
                        "repeat",
                        vec![
                            Sexp::int(n as i64),
                            Sexp::call("seq", vec![inner, Sexp::call("run", vec![a(&rs2)])]),
                        ],
                    )
                }
                _ => Sexp::call("repeat", vec![Sexp::int(1), inner]),
            };
            return Sexp::call("run-schedule", vec![s]);
        }
        Sexp::call("run", vec![a(&rs), Sexp::int(n as i64)])
    }

    pub fn gen_check(&mut self) -> Sexp {
        let ns = self.sig.sorts.len();
        let s = self.rng.below(ns);
        match self.rng.below(3) {
            0 => {
                let t1 = self.ground_term(s, 2);
                let t2 = self.ground_term(s, 2);
                Sexp::call("check", vec![Sexp::call("=", vec![t1, t2])])
            }
            1 if !self.sig.rels.is_empty() => {
                let r = self.sig.rels[self.rng.below(self.sig.rels.len())].clone();
                let args = r.args.iter().map(|t| self.ground(t, 1)).collect();
                Sexp::call("check", vec![Sexp::call(&r.name, args)])
            }
            _ => {
                let t = self.force_app(s);
                Sexp::call("check", vec![t])
            }
        }
    }

    pub fn gen_extract(&mut self) -> Sexp {
        let s = self.rng.below(self.sig.sorts.len());
        let t = self.ground_term(s, 2);
        if self.rng.chance(1, 4) {
            Sexp::call("extract", vec![t, Sexp::int(1 + self.rng.below(3) as i64)])
        } else {
            Sexp::call("extract", vec![t])
        }
    }

    pub fn gen_print(&mut self) -> Sexp {
        let mut names: Vec<String> = self.sig.rels.iter().map(|r| r.name.clone()).collect();
        names.extend(self.sig.funcs.iter().map(|f| f.name.clone()));
        names.extend(self.sig.ctors.iter().map(|c| c.name.clone()));
        let n = names[self.rng.below(names.len())].clone();
        if self.rng.chance(1, 2) {
            Sexp::call("print-size", vec![a(&n)])
        } else {
            Sexp::call("print-function", vec![a(&n), Sexp::int(20)])
        }
    }

    /// A whole program body (after the declarations): rules, facts, runs, checks …
    pub fn gen_session(&mut self) -> Vec<Sexp> {
        let mut ops = Vec::new();
        let nrules = 1 + self.rng.below(self.f.max_rules);
        let n = self.f.max_cmds;
        let mut rules_left = nrules;
        let nf = if self.f.facts_heavy { 4 + self.rng.below(6) } else { 1 + self.rng.below(4) };
        for _ in 0..nf {
            ops.push(self.gen_fact());
        }
        // most rules come early, each followed by facts that make it fire
        let early = 1 + self.rng.below(nrules);
        for _ in 0..early {
            rules_left -= 1;
            ops.push(self.gen_rule());
            if self.rng.chance(4, 5) {
                let k = 1 + self.rng.below(2);
                for _ in 0..k {
                    ops.extend(self.seed_facts());
                }
            }
        }
        let mut depth = 0usize;
        for _ in 0..n {
            let w = [
                if rules_left > 0 { 2 } else { 0 },
                5,
                6,
                if self.f.checks { 3 } else { 0 },
                if self.f.extract { 2 } else { 0 },
                if self.f.prints { 1 } else { 0 },
                if self.f.pushpop { 2 } else { 0 },
            ];
            match self.rng.weighted(&w) {
                0 => {
                    rules_left -= 1;
                    ops.push(self.gen_rule());
                    if self.rng.chance(2, 3) {
                        ops.extend(self.seed_facts());
                    }
                }
                1 => {
                    if self.last_body.is_some() && self.rng.chance(1, 3) {
                        ops.extend(self.seed_facts());
                    } else {
                        ops.push(self.gen_fact());
                    }
                }
                2 => ops.push(self.gen_run()),
                3 => ops.push(self.gen_check()),
                4 => ops.push(self.gen_extract()),
                5 => ops.push(self.gen_print()),
                _ => {
                    if depth > 0 && self.rng.chance(1, 2) {
                        depth -= 1;
                        ops.push(Sexp::call("pop", vec![]));
                    } else {
                        depth += 1;
                        ops.push(Sexp::call("push", vec![]));
                    }
                }
            }
        }
        ops
    }
}

pub fn rename(t: &Sexp, from: &str, to: &str) -> Sexp {
    match t {
        Sexp::Atom(s) if s == from => Sexp::atom(to),
        Sexp::List(v) => Sexp::List(v.iter().map(|x| rename(x, from, to)).collect()),
        _ => t.clone(),
    }
}

/// Make the atom `p` share a variable with the atoms generated before it
/// (`vars[..snapshot]`), when a type-compatible one exists: disconnected
/// bodies are cross products and explode.
fn connect(p: Sexp, vars: &mut Vec<(String, Ty)>, snapshot: usize, rng: &mut Rng) -> Sexp {
    if snapshot == 0 {
        return p;
    }
    let shares = vars[..snapshot].iter().any(|(n, _)| mentions(&p, n));
    if shares {
        return p;
    }
    let fresh: Vec<(String, Ty)> = vars[snapshot..].to_vec();
    for (name, ty) in fresh {
        let olds: Vec<String> = vars[..snapshot]
            .iter()
            .filter(|(_, t)| *t == ty)
            .map(|(n, _)| n.clone())
            .collect();
        if !olds.is_empty() {
            let old = olds[rng.below(olds.len())].clone();
            vars.retain(|(n, _)| *n != name);
            return rename(&p, &name, &old);
        }
    }
    p
}

pub fn mentions(t: &Sexp, name: &str) -> bool {
    match t {
        Sexp::Atom(s) => s == name,
        Sexp::List(v) => v.iter().any(|x| mentions(x, name)),
        _ => false,
    }
}

fn contains_let(t: &Sexp, lets: &[(String, Ty)]) -> bool {
    lets.iter().any(|(n, _)| mentions(t, n))
}

pub fn to_text(ops: &[Sexp]) -> Vec<String> {
    ops.iter().map(|s| s.to_string()).collect()
}

impl Gen {
    /// Extra declarations with tag-specific names (used by bodies whose names
    /// are later re-declared): a constructor, a relation, a function, a ruleset.
    pub fn gen_extra_decls(&mut self, tag: &str) -> Vec<Sexp> {
        let mut ops = Vec::new();
        let ns = self.sig.sorts.len();
        let s = self.rng.below(ns);
        // constructor
        let arity = self.rng.below(3);
        let mut args = Vec::new();
        for _ in 0..arity {
            args.push(if self.rng.chance(1, 4) { Ty::I64 } else { Ty::Eq(self.rng.below(ns)) });
        }
        let cname = format!("K{tag}");
        ops.push(Sexp::call(
            "constructor",
            vec![
                Sexp::atom(&cname),
                Sexp::list(args.iter().map(|t| Sexp::atom(&self.ty_name(t))).collect()),
                Sexp::atom(&self.sig.sorts[s].clone()),
            ],
        ));
        self.sig.ctors.push(Ctor { name: cname, args, out: s, cost: None, unextractable: false });
        // relation
        let rname = format!("R{tag}");
        let rargs: Vec<Ty> = (0..1 + self.rng.below(2))
            .map(|_| if self.rng.chance(1, 3) { Ty::I64 } else { Ty::Eq(self.rng.below(ns)) })
            .collect();
        ops.push(Sexp::call(
            "relation",
            vec![
                Sexp::atom(&rname),
                Sexp::list(rargs.iter().map(|t| Sexp::atom(&self.ty_name(t))).collect()),
            ],
        ));
        self.sig.rels.push(Rel { name: rname, args: rargs });
        // function
        let fname = format!("f{tag}");
        let fargs: Vec<Ty> = (0..1 + self.rng.below(2))
            .map(|_| if self.rng.chance(1, 2) { Ty::I64 } else { Ty::Eq(self.rng.below(ns)) })
            .collect();
        let mx = self.rng.chance(1, 2);
        ops.push(Sexp::call(
            "function",
            vec![
                Sexp::atom(&fname),
                Sexp::list(fargs.iter().map(|t| Sexp::atom(&self.ty_name(t))).collect()),
                Sexp::atom("i64"),
                Sexp::atom(":merge"),
                Sexp::call(if mx { "max" } else { "min" }, vec![Sexp::atom("old"), Sexp::atom("new")]),
            ],
        ));
        self.sig.funcs.push(Func {
            name: fname,
            args: fargs,
            out: FuncOut::I64,
            merge: if mx { Merge::Max } else { Merge::Min },
        });
        // ruleset
        let rs = format!("r{tag}");
        ops.push(Sexp::call("ruleset", vec![Sexp::atom(&rs)]));
        self.sig.rulesets.push(rs);
        ops
    }
}
