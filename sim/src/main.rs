//! egsim — deterministic simulation with fault injection for egglog.
//! See /verif/DESIGN.md.

pub mod case;
pub mod driver;
pub mod dump;
pub mod exec;
pub mod faults;
pub mod model;
pub mod wgen;
pub mod props;
pub mod rng;
pub mod sexp;

use case::{Case, CaseResult, Verdict};
use egglog_concurrency::verif;
use props::Tier;
use serde_json::Value;
use std::io::{BufRead, Write};
use std::sync::atomic::{AtomicBool, AtomicU64, Ordering};

pub static VERBOSE: AtomicBool = AtomicBool::new(false);
static IN_CASE: AtomicBool = AtomicBool::new(false);
static CASE_SERIAL: AtomicU64 = AtomicU64::new(0);

fn emit(res: &CaseResult) {
    let out = std::io::stdout();
    let mut l = out.lock();
    let _ = writeln!(l, "RESULT {}", res.to_json());
    let _ = l.flush();
}

fn worker(once: bool) {
    exec::install_panic_hook();
    // A deadlock / step-limit decided by the scheduler ends the process: the
    // other simulated threads are parked for ever.
    verif::set_abort_handler(Box::new(|why, report| {
        let mut res = CaseResult::new();
        res.steps = report.steps;
        res.handovers = report.handovers;
        res.trace_hash = report.trace_hash;
        res.trace = Some(report.trace.clone());
        match why {
            verif::Abort::Deadlock => {
                res.verdict = Verdict::Violation {
                    class: "deadlock".into(),
                    detail: format!("no runnable thread; waiting: {:?}", report.waiting),
                };
            }
            verif::Abort::StepLimit => {
                res.verdict = Verdict::Inconclusive("step-limit".into());
            }
        }
        emit(&res);
        std::process::exit(3);
    }));
    // Watchdog: the token holder made no scheduler call for 30 s of real time
    // while a simulation is active => a hook is missing: harness error, exit 2.
    std::thread::spawn(|| {
        // CPU time consumed by this process, in clock ticks (utime + stime of /proc/self/stat)
        fn cpu_ticks() -> u64 {
            std::fs::read_to_string("/proc/self/stat")
                .ok()
                .and_then(|s| {
                    let rest = s.rsplit_once(')')?.1.to_string();
                    let f: Vec<&str> = rest.split_whitespace().collect();
                    Some(f.get(11)?.parse::<u64>().ok()? + f.get(12)?.parse::<u64>().ok()?)
                })
                .unwrap_or(0)
        }
        let mut last = (0u64, 0u64);
        let mut since = std::time::Instant::now();
        let mut cpu_at_since = cpu_ticks();
        loop {
            std::thread::sleep(std::time::Duration::from_millis(500));
            let cur = (verif::global_tick(), CASE_SERIAL.load(Ordering::Relaxed));
            if cur != last || !IN_CASE.load(Ordering::Relaxed) || verif::sims_active() == 0 {
                last = cur;
                since = std::time::Instant::now();
                cpu_at_since = cpu_ticks();
                continue;
            }
            if since.elapsed().as_secs() >= 30 {
                // A token holder that burns CPU is computing (a large join between two
                // yield points, or a starved machine), not blocked: leave that to the
                // per-case wall limit. Only a process that sits idle is a missing hook.
                let used = cpu_ticks().saturating_sub(cpu_at_since);
                if used > 200 {
                    since = std::time::Instant::now();
                    cpu_at_since = cpu_ticks();
                    continue;
                }
                let mut res = CaseResult::new();
                res.verdict = Verdict::HarnessError(format!(
                    "simulation stalled after site {}",
                    verif::last_site()
                ));
                emit(&res);
                std::process::exit(2);
            }
        }
    });
    let stdin = std::io::stdin();
    for line in stdin.lock().lines() {
        let Ok(line) = line else { break };
        if line.trim().is_empty() {
            continue;
        }
        let v: Value = match serde_json::from_str(&line) {
            Ok(v) => v,
            Err(e) => {
                let mut r = CaseResult::new();
                r.verdict = Verdict::HarnessError(format!("bad case json: {e}"));
                emit(&r);
                continue;
            }
        };
        let res = match Case::from_json(&v) {
            Ok(case) => run_case(&case),
            Err(e) => {
                let mut r = CaseResult::new();
                r.verdict = Verdict::HarnessError(format!("bad case: {e}"));
                r
            }
        };
        emit(&res);
        if once {
            // leftover simulated threads (global index pool) never exit
            std::process::exit(0);
        }
    }
}

fn run_case(case: &Case) -> CaseResult {
    let Some(prop) = props::get(&case.prop) else {
        let mut r = CaseResult::new();
        r.verdict = Verdict::HarnessError(format!("unknown property {}", case.prop));
        return r;
    };
    CASE_SERIAL.fetch_add(1, Ordering::Relaxed);
    IN_CASE.store(true, Ordering::Relaxed);
    let r = match exec::guarded(|| prop.check(case)) {
        Ok(r) => r,
        Err(p) => {
            let mut r = CaseResult::new();
            r.verdict = Verdict::HarnessError(format!("harness panic: {p}"));
            r
        }
    };
    IN_CASE.store(false, Ordering::Relaxed);
    r
}

fn arg_val(args: &[String], name: &str) -> Option<String> {
    args.iter()
        .position(|a| a == name)
        .and_then(|i| args.get(i + 1).cloned())
}

fn verif_seed() -> u64 {
    std::env::var("VERIF_SEED")
        .ok()
        .and_then(|s| s.parse().ok())
        .unwrap_or(20260923)
}

fn main() {
    let args: Vec<String> = std::env::args().collect();
    if args.iter().any(|a| a == "-v") {
        VERBOSE.store(true, Ordering::Relaxed);
    }
    let cmd = args.get(1).map(|s| s.as_str()).unwrap_or("");
    let workers = arg_val(&args, "--workers")
        .and_then(|s| s.parse().ok())
        .unwrap_or_else(|| {
            std::thread::available_parallelism()
                .map(|n| n.get())
                .unwrap_or(4)
                .min(16)
        });
    match cmd {
        "worker" => worker(args.iter().any(|a| a == "--once")),
        "batch" => {
            let id = arg_val(&args, "--prop").expect("--prop");
            let prop = props::get(&id).unwrap_or_else(|| {
                eprintln!("unknown property {id}");
                std::process::exit(2)
            });
            let tier = match arg_val(&args, "--tier")
                .or_else(|| std::env::var("VERIF_TIER").ok())
                .as_deref()
            {
                Some("thorough") => Tier::Thorough,
                _ => Tier::Quick,
            };
            let opts = driver::BatchOpts {
                tier,
                verif_seed: verif_seed(),
                cases: arg_val(&args, "--cases").and_then(|s| s.parse().ok()),
                wall_s: arg_val(&args, "--wall").and_then(|s| s.parse().ok()),
                workers,
                write_evidence: !args.iter().any(|a| a == "--no-evidence"),
            };
            std::process::exit(driver::batch(prop.as_ref(), &opts));
        }
        "selftest" => {
            let id = arg_val(&args, "--prop").expect("--prop");
            let prop = props::get(&id).expect("unknown property");
            let n = arg_val(&args, "--n").and_then(|s| s.parse().ok()).unwrap_or(200);
            std::process::exit(driver::selftest(prop.as_ref(), verif_seed(), n, workers));
        }
        "gen" => {
            let id = arg_val(&args, "--prop").expect("--prop");
            let prop = props::get(&id).expect("unknown property");
            let index: u64 = arg_val(&args, "--index").and_then(|s| s.parse().ok()).unwrap_or(0);
            let seed = arg_val(&args, "--seed")
                .and_then(|s| s.parse().ok())
                .unwrap_or_else(|| rng::run_seed(verif_seed(), &id, index / prop.group()));
            let c = prop.generate(seed, index, Tier::Quick);
            println!("{}", serde_json::to_string_pretty(&c.to_json()).unwrap());
        }
        "replay" => {
            let path = args.get(2).expect("replay <file>");
            let txt = std::fs::read_to_string(path).expect("read replay file");
            let v: Value = serde_json::from_str(&txt).expect("json");
            let case = Case::from_json(&v).expect("case");
            let prop = props::get(&case.prop).expect("unknown property");
            let mut pool = driver::Pool::new(0);
            let r = pool.run(prop.as_ref(), &case);
            pool.shutdown();
            let want = v["violation"]["class"].as_str().unwrap_or("");
            match &r.verdict {
                Verdict::Violation { class, detail } => {
                    println!("VIOLATION property={} replay={}", case.prop, path);
                    println!("  class={class} detail={detail}");
                    if want.is_empty() || want == class {
                        std::process::exit(1);
                    }
                    println!("  (recorded class was {want})");
                    std::process::exit(1);
                }
                other => {
                    println!("replay of {path}: {other:?}");
                    std::process::exit(if matches!(other, Verdict::HarnessError(_)) { 2 } else { 0 });
                }
            }
        }
        "dump" => {
            // run an .egg file command by command on the engine and on the model, print both dumps
            let path = args.get(2).expect("dump <file.egg>");
            let txt = std::fs::read_to_string(path).expect("read");
            exec::install_panic_hook();
            let mut e = exec::Engine::new(exec::Mode::Plain, 1);
            let mut m = model::Model::new();
            for cmd in sexp::parse_all(&txt).expect("parse") {
                let t = cmd.to_string();
                let o = e.run(&t);
                let mo = m.run(&t);
                println!("{t}\n   engine: {}\n   model:  {:?}", props::common::normalized(&o), mo);
            }
            let (_, d) = e.dump().unwrap();
            println!("--- engine dump\n{}", d.text());
            let dm = dump::canonical(&m.raw());
            println!("--- model dump\n{}", dm.text());
            println!("--- equal: {}", d.lines == dm.lines);
        }
        "transcript" => {
            // C20 child: ops as a JSON array on stdin, transcript on stdout
            let mut txt = String::new();
            std::io::Read::read_to_string(&mut std::io::stdin(), &mut txt).expect("stdin");
            let ops: Vec<String> = serde_json::from_str(&txt).expect("json ops");
            exec::install_panic_hook();
            print!("{}", props::c20::transcript(&ops));
        }
        "exec" => {
            // run a case file in this very process (debugging)
            let path = args.get(2).expect("exec <file>");
            let txt = std::fs::read_to_string(path).expect("read");
            let v: Value = serde_json::from_str(&txt).expect("json");
            let case = Case::from_json(&v).expect("case");
            exec::install_panic_hook();
            let r = run_case(&case);
            println!("{}", serde_json::to_string_pretty(&r.to_json()).unwrap());
        }
        _ => {
            eprintln!("usage: egsim batch|replay|selftest|gen|exec|worker ...");
            std::process::exit(2);
        }
    }
}
