//! Miri complement of C17/C19 (thorough tier): the same kinds of scenarios as
//! the token-scheduler runs, but with real threads under Miri's own seeded
//! scheduler, for what a serialising scheduler cannot see: data races on plain
//! memory, uninitialised reads, use after free. Arguments: <scenario> <variant>.

use egglog_concurrency::{ConcurrentVec, ParallelVecWriter, ReadOptimizedLock, ThreadPool};
use egglog_union_find::concurrent::UnionFind;
use std::sync::Arc;
use std::sync::atomic::{AtomicUsize, Ordering};
use std::thread;

fn uf(variant: u64) {
    let uf: UnionFind<usize> = UnionFind::with_capacity(1);
    let mut hs = Vec::new();
    for t in 0..3u64 {
        let uf = uf.clone();
        hs.push(thread::spawn(move || {
            for i in 0..3u64 {
                let a = ((t * 3 + i + variant) % 6) as usize;
                let b = ((t + i * 2 + variant / 2) % 6) as usize;
                match (i + t + variant) % 3 {
                    0 => {
                        uf.union(a, b);
                    }
                    1 => {
                        uf.find(a);
                    }
                    _ => {
                        uf.same_set(a, b);
                    }
                }
            }
        }));
    }
    for h in hs {
        h.join().unwrap();
    }
    for i in 0..6usize {
        assert!(uf.find(i) <= i, "representative is not the minimum");
    }
}

fn rolock(variant: u64) {
    let lock = Arc::new(ReadOptimizedLock::new((0u64, !0u64)));
    let mut hs = Vec::new();
    for w in 0..2u64 {
        let lock = lock.clone();
        hs.push(thread::spawn(move || {
            for i in 0..2 {
                let mut g = lock.lock();
                let x = w * 10 + i + variant;
                g.0 = x;
                thread::yield_now();
                g.1 = !x;
            }
        }));
    }
    for _ in 0..2 {
        let lock = lock.clone();
        hs.push(thread::spawn(move || {
            for _ in 0..3 {
                let g = lock.read();
                assert_eq!(g.1, !g.0, "torn read");
            }
        }));
    }
    for h in hs {
        h.join().unwrap();
    }
}

fn cvec(variant: u64) {
    let v: Arc<ConcurrentVec<u64>> = Arc::new(ConcurrentVec::with_capacity(1));
    let mut hs = Vec::new();
    for p in 0..2u64 {
        let v = v.clone();
        hs.push(thread::spawn(move || {
            for i in 0..3 {
                v.push(p * 100 + i + variant);
            }
        }));
    }
    {
        let v = v.clone();
        hs.push(thread::spawn(move || {
            for _ in 0..3 {
                let r = v.read();
                let _s: u64 = r.iter().sum();
            }
        }));
    }
    for h in hs {
        h.join().unwrap();
    }
    assert_eq!(v.read().len(), 6);
    if variant % 2 == 1 {
        v.resize_with(11, || 7);
        assert!(v.read().iter().skip(6).all(|x| *x == 7));
    }
}

fn pwriter(variant: u64) {
    let w = Arc::new(ParallelVecWriter::new(vec![1u64, 2]));
    let mut hs = Vec::new();
    for t in 0..3u64 {
        let w = w.clone();
        hs.push(thread::spawn(move || {
            let items: Vec<u64> = (0..2 + (t + variant) % 3).map(|i| t * 10 + i).collect();
            let start = w.write_slice(&items);
            (start, items)
        }));
    }
    let rs: Vec<(usize, Vec<u64>)> = hs.into_iter().map(|h| h.join().unwrap()).collect();
    let out = Arc::try_unwrap(w).ok().unwrap().finish();
    for (start, items) in rs {
        assert_eq!(&out[start..start + items.len()], &items[..]);
    }
}

fn pool(variant: u64) {
    let pool = ThreadPool::new(1 + (variant % 3) as usize);
    let n = AtomicUsize::new(0);
    pool.scope(|s| {
        for _ in 0..3 {
            s.spawn(|s2| {
                n.fetch_add(1, Ordering::SeqCst);
                s2.spawn(|_| {
                    n.fetch_add(1, Ordering::SeqCst);
                    egglog_concurrency::scope(|s3| {
                        s3.spawn(|_| {
                            n.fetch_add(1, Ordering::SeqCst);
                        });
                    });
                });
            });
        }
    });
    assert_eq!(n.load(Ordering::SeqCst), 9);
}

fn main() {
    let args: Vec<String> = std::env::args().collect();
    let scenario = args.get(1).map(|s| s.as_str()).unwrap_or("uf");
    let variant: u64 = args.get(2).and_then(|s| s.parse().ok()).unwrap_or(0);
    match scenario {
        "uf" => uf(variant),
        "rolock" => rolock(variant),
        "cvec" => cvec(variant),
        "pwriter" => pwriter(variant),
        "pool" => pool(variant),
        _ => panic!("unknown scenario"),
    }
    println!("ok {scenario} {variant}");
}
