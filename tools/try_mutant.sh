#!/bin/bash
# usage: try_mutant.sh <patch.diff> <prop> [<prop> ...]
# applies the patch to /repo, rebuilds egsim, runs the quick batches without touching evidence, reverts.
patch=$1; shift
cd /repo && git diff --quiet || { echo "repo dirty"; exit 2; }
git -C /repo apply "$patch" || { echo "patch does not apply"; exit 2; }
cd /verif && ./check --build || { git -C /repo checkout -- .; exit 2; }
mkdir -p /tmp/mutrep; rm -rf /tmp/mutrep/*; cp /verif/known-findings.json /tmp/mutrep/
for p in "$@"; do
  VERIF_ROOT=/tmp/mutrep ./target/release/egsim batch --prop $p --no-evidence 2>&1 | grep -v "^KNOWN\|^NOTE" | cut -c1-330 | tail -4
  cp /verif/known-findings.json /tmp/mutrep/ 2>/dev/null
done
git -C /repo checkout -- .
cd /verif && ./check --build
