#!/bin/bash
# usage: [TM_WORKERS=n] [TM_WALL=s] try_mutant.sh <patch.diff> <prop> [<prop> ...]
# Applies the patch to /repo, builds a private egsim against it (build directory /tmp/tm-target, so
# that a batch running from /verif/target is not disturbed), runs the quick batches without
# touching evidence, and reverts /repo. The registered checks always build in /verif/target.
patch=$1; shift
cd /repo && git diff --quiet || { echo "repo dirty"; exit 2; }
git -C /repo apply "$patch" || { echo "patch does not apply"; exit 2; }
( cd /verif/sim && CARGO_TARGET_DIR=/tmp/tm-target cargo build --release --offline 2>/tmp/tm-build.log >/dev/null ) || { tail -20 /tmp/tm-build.log; git -C /repo checkout -- .; exit 2; }
cp /tmp/tm-target/release/egsim /tmp/tm-egsim
git -C /repo checkout -- .
mkdir -p /tmp/mutrep; rm -rf /tmp/mutrep/*; cp /verif/known-findings.json /tmp/mutrep/
for p in "$@"; do
  VERIF_ROOT=/tmp/mutrep /tmp/tm-egsim batch --prop $p --no-evidence ${TM_WORKERS:+--workers $TM_WORKERS} ${TM_WALL:+--wall $TM_WALL} 2>&1 | grep -v "^KNOWN\|^NOTE" | cut -c1-330 | tail -4
  cp /verif/known-findings.json /tmp/mutrep/ 2>/dev/null
done
