#!/bin/bash
# usage: miri_complement.sh <property> ; thorough-tier complement for C17 / C19
# Real threads under Miri's seeded scheduler: data races, uninitialised reads, use after free.
prop=$1
cd /verif/miri || exit 2
cp /repo/Cargo.lock . 2>/dev/null
case "$prop" in
  C17) scenarios="uf" ;;
  C19) scenarios="rolock cvec pwriter pool" ;;
  *) exit 0 ;;
esac
if ! cargo +nightly miri --version >/dev/null 2>&1; then echo "miri complement: miri not available, skipped"; exit 0; fi
total=0; bad=0
for sc in $scenarios; do
  for variant in 0 1 2 3; do
    out=$(MIRIFLAGS="-Zmiri-many-seeds=0..8 -Zmiri-disable-stacked-borrows -Zmiri-preemption-rate=0.1" cargo +nightly miri run --offline -- $sc $variant 2>&1)
    total=$((total+8))
    if ! echo "$out" | tail -n 3 | grep -q "^ok $sc $variant"; then
      bad=$((bad+1))
      mkdir -p /verif/replays
      f=/verif/replays/$prop-miri-$sc-$variant.txt
      { echo "cd /verif/miri && MIRIFLAGS='-Zmiri-many-seeds=0..8 -Zmiri-disable-stacked-borrows -Zmiri-preemption-rate=0.1' cargo +nightly miri run --offline -- $sc $variant"; echo "$out" | tail -n 60; } > $f
      echo "VIOLATION property=$prop replay=$f"
    fi
  done
done
echo "miri complement property=$prop scenarios=[$scenarios] runs=$total failing_variants=$bad"
python3 - "$prop" "$total" "$bad" "$scenarios" <<'PY'
import json,sys
prop,total,bad,sc=sys.argv[1],int(sys.argv[2]),int(sys.argv[3]),sys.argv[4]
p=f"/verif/evidence/{prop}.json"
try:
    e=json.load(open(p))
    e["coverage"]["miri_complement"]={"scenarios":sc.split(),"interpreted_runs":total,"failing_variants":bad,"flags":"-Zmiri-many-seeds=0..8 -Zmiri-disable-stacked-borrows -Zmiri-preemption-rate=0.1"}
    json.dump(e,open(p,"w"),indent=1)
except Exception as ex:
    print("evidence not updated:",ex)
PY
[ $bad -eq 0 ]
