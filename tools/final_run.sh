#!/bin/bash
# Runs every registered quick check from /verif against /repo's working tree, one after the other,
# and prints one line per property; evidence/<id>.json is rewritten by each check.
cd /verif
git -C /repo diff --quiet || { echo "/repo has uncommitted changes"; exit 2; }
./check --build || exit 2
fail=0
for id in C01 C02 C03 C04 C05 C06 C07 C08 C09 C10 C11 C12 C13 C14 C16 C17 C18 C19 C20; do
  ./check $id ${1:-quick} > /tmp/final-$id.log 2>&1; rc=$?
  echo "$id rc=$rc $(grep -E '^property=' /tmp/final-$id.log | cut -c1-200)"
  grep -E "^VIOLATION|^HARNESS" /tmp/final-$id.log | head -5
  [ $rc -ne 0 ] && fail=1
done
python3 tools/mkmanifest.py > /dev/null && python3-vt tools/validate.py | tail -1
exit $fail
