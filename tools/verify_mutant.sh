#!/bin/bash
# usage: [VSLOT=a] [VTHREADS=8] verify_mutant.sh <seeded-id> [--no-suite|--reuse-suite]
# (never edit this file in place while a slot is running it: write a copy and mv it over)
# Confirms in a scratch worktree of /repo (never /repo itself): the patch applies and compiles
# (with and without verif-hooks), the demonstration passes without the patch and fails with it,
# and the repository's existing test suite, unedited, passes with it.
# A slot keeps one worktree (/tmp/ver-slot-$VSLOT) and one build directory (/tmp/vt-$VSLOT) that are
# reused by consecutive runs of the same slot; remove both with `verify_mutant.sh --clean`.
if [ "$1" = "--clean" ]; then
  for w in /tmp/ver-slot-*; do [ -d "$w" ] && git -C /repo worktree remove --force $w 2>/dev/null; rm -rf $w; done
  rm -rf /tmp/vt-*; git -C /repo worktree prune; exit 0
fi
id=$1; S=/verif/seeded/$id; slot=${VSLOT:-a}; W=/tmp/ver-slot-$slot; T=${VTHREADS:-8}
[ -f $S/patch.diff ] || { echo "no patch for $id"; exit 2; }
# several slots may work through overlapping lists: one slot per change, and a change whose
# suite has already been confirmed in the optimised profile is not run again
if grep -q '"suite_profile"' $S/confirm.json 2>/dev/null && grep -q 'tests run' $S/confirm.json; then echo "already confirmed: $id"; exit 0; fi
mkdir /tmp/vlock-$id 2>/dev/null || { echo "in progress elsewhere: $id"; exit 0; }
trap "rmdir /tmp/vlock-$id 2>/dev/null" EXIT
head=$(git -C /repo rev-parse HEAD)
if [ -d $W/.git ] || [ -f $W/.git ]; then
  git -C $W checkout -q -- . && git -C $W clean -fdq && git -C $W checkout -q --detach $head || exit 2
else
  git -C /repo worktree add -q --detach $W $head || exit 2
fi
cd $W
export SEEDED=$S CARGO_TARGET_DIR=/tmp/vt-$slot
# The suite is built optimised but with the debug and overflow assertions of the dev profile kept:
# the same tests and assertions as the baseline command, several times faster to run.
export CARGO_PROFILE_RELEASE_DEBUG_ASSERTIONS=true CARGO_PROFILE_RELEASE_OVERFLOW_CHECKS=true
bash $S/demo_cmd.sh > $S/confirm_demo_without.log 2>&1; d0=$?
git apply $S/patch.diff || { echo "patch does not apply"; exit 2; }
cargo check --offline -q -j $T > $S/confirm_build.log 2>&1; b1=$?
cargo check --offline -q -j $T --features verif-hooks >> $S/confirm_build.log 2>&1; b2=$?
bash $S/demo_cmd.sh > $S/confirm_demo_with.log 2>&1; d1=$?
suite="skipped"
if [ "$2" = "--reuse-suite" ] && [ -f $S/confirm_suite.log ] && grep -q "tests run" $S/confirm_suite.log; then gzip -f $S/confirm_suite.log; fi
if [ "$2" = "--reuse-suite" ] && [ -f $S/confirm_suite.log.gz ]; then
  # the suite already ran with this patch in this profile (log kept); only the rest is redone
  suite=$(zcat $S/confirm_suite.log.gz | grep -E "^\s+Summary" | tail -1 | sed 's/^ *//')
elif [ "$2" != "--no-suite" ]; then
  cargo nextest run --workspace --cargo-profile release --no-fail-fast --tool-config-file pb:/w/lib/nextest.toml --profile pb --test-threads $T --offline > $S/confirm_suite.log 2>&1
  suite=$(grep -E "^\s+Summary" $S/confirm_suite.log | tail -1 | sed 's/^ *//')
  grep -E "^\s+(FAIL|TIMEOUT|SIGABRT|SIGSEGV|SIGTERM)" $S/confirm_suite.log | sort -u > $S/confirm_suite_failures.log
  gzip -f $S/confirm_suite.log
fi
git -C $W checkout -q -- . ; git -C $W clean -fdq
python3 - "$id" "$d0" "$d1" "$b1" "$b2" "$suite" "$T" <<'PY'
import json,sys,subprocess
id,d0,d1,b1,b2,suite,t=sys.argv[1:8]
head=subprocess.run(['git','-C','/repo','rev-parse','--short','HEAD'],capture_output=True,text=True).stdout.strip()
json.dump({"id":id,"demo_without_patch_exit":int(d0),"demo_with_patch_exit":int(d1),"compiles":int(b1)==0,"compiles_with_hooks":int(b2)==0,"suite_summary":suite,"suite_threads":int(t),"suite_profile":"release + debug-assertions + overflow-checks","repo_head":head},open(f"/verif/seeded/{id}/confirm.json","w"),indent=1)
print(open(f"/verif/seeded/{id}/confirm.json").read())
PY
