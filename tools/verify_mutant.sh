#!/bin/bash
# usage: verify_mutant.sh <seeded-id> [--no-suite]
# Confirms in a scratch worktree: the patch applies and compiles (with and without verif-hooks),
# the demonstration passes without the patch and fails with it, and the existing suite passes with it.
id=$1; S=/verif/seeded/$id; W=/tmp/ver-$id
[ -f $S/patch.diff ] || { echo "no patch for $id"; exit 2; }
git -C /repo worktree remove --force $W 2>/dev/null; rm -rf $W
git -C /repo worktree add -q --detach $W HEAD || exit 2
cd $W
export SEEDED=$S
res="{"
bash $S/demo_cmd.sh > $S/confirm_demo_without.log 2>&1; d0=$?
git apply $S/patch.diff || { echo "patch does not apply"; exit 2; }
cargo check --offline -q -j 8 > $S/confirm_build.log 2>&1; b1=$?
cargo check --offline -q -j 8 --features verif-hooks >> $S/confirm_build.log 2>&1; b2=$?
bash $S/demo_cmd.sh > $S/confirm_demo_with.log 2>&1; d1=$?
suite="skipped"
if [ "$2" != "--no-suite" ]; then
  cargo nextest run --workspace --no-fail-fast --tool-config-file pb:/w/lib/nextest.toml --profile pb --test-threads 8 --offline > $S/confirm_suite.log 2>&1
  suite=$(grep -E "^\s+Summary" $S/confirm_suite.log | tail -1 | sed 's/^ *//')
  grep -E "^\s+(FAIL|TIMEOUT|SIGABRT|SIGSEGV|SIGTERM)" $S/confirm_suite.log | sort -u > $S/confirm_suite_failures.log
  gzip -f $S/confirm_suite.log
fi
python3 - "$id" "$d0" "$d1" "$b1" "$b2" "$suite" <<'PY'
import json,sys
id,d0,d1,b1,b2,suite=sys.argv[1:7]
json.dump({"id":id,"demo_without_patch_exit":int(d0),"demo_with_patch_exit":int(d1),"compiles":int(b1)==0,"compiles_with_hooks":int(b2)==0,"suite_summary":suite,"repo_head":__import__('subprocess').run(['git','-C','/repo','rev-parse','--short','HEAD'],capture_output=True,text=True).stdout.strip()},open(f"/verif/seeded/{id}/confirm.json","w"),indent=1)
print(open(f"/verif/seeded/{id}/confirm.json").read())
PY
cd /; git -C /repo worktree remove --force $W; rm -rf $W
