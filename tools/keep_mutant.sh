#!/bin/bash
# usage: keep_mutant.sh <mut-dir under /tmp> <seeded-id>   (copies patch, demo, agent meta)
set -e
src=$1; id=$2
mkdir -p /verif/seeded/$id
cp $src/out/patch.diff /verif/seeded/$id/patch.diff
for f in demo.rs demo.egg demo2.egg demo_part2.egg; do [ -f $src/out/$f ] && cp $src/out/$f /verif/seeded/$id/ || true; done
[ -f $src/out/meta.json ] && cp $src/out/meta.json /verif/seeded/$id/agent_meta.json || true
echo kept $id
