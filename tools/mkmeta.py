#!/usr/bin/env python3
"""Writes seeded/<id>/meta.json from the table below plus confirm.json (written by verify_mutant.sh)."""
import json, os
S = '/verif/seeded'
RAN = ("tools/verify_mutant.sh <id> in a scratch worktree of /repo under /tmp (patch applies; cargo check with and "
       "without --features verif-hooks; demo_cmd.sh without the patch and with it; the baseline nextest suite with the patch, built with --cargo-profile release plus debug and overflow assertions) "
       "-> confirm.json; tools/try_mutant.sh patch.diff <props> (git -C /repo apply, rebuild egsim, quick batches at "
       "VERIF_SEED=20260923 with --no-evidence into /tmp, git -C /repo checkout -- ., rebuild)")
T = {
 'C01-parallel-rebuild-drops-tail': dict(prop='C01', change='parallel non-incremental table rebuild drops the last partial chunk of rows',
   needs='more than one thread and EGGLOG_PARALLEL_REBUILD_CUTOFF low enough that the parallel rebuild path is taken; a table whose row count is not a multiple of the chunk size; a union that displaces an id stored in the tail',
   caught={'C01': 'invariant (non-canonical id)', 'C06': 'dump-mismatch', 'C03': 'outcome-mismatch'}, missed=[], strengthened=None),
 'C02-trie-child-cache-ignores-constraints': dict(prop='C02', change='TrieNode::get_cached_trie_node accepts a cached child when the caller has no slow edge constraints, whatever constraints the cached child was built with',
   needs='two plan atoms over one table sharing a trie root in one run (sibling rules or two atoms), one with a repeated variable inside the atom (slow Eq constraint) evaluated first; a join value with more than 16 rows under it',
   caught={'C02': 'matches-differ-from-model'}, missed=['C02 before strengthening', 'C03'],
   strengthened='C02 generated one rule per run over small domains; now 1-3 sibling rules per run (variants of the first body: repeated variables, constants, fresh variables), wide atoms with repeated variables, and hub data (17-40 rows under one value)'),
 'C03-sortchecker-drops-late-shard': dict(prop='C03', change='SortChecker::check_global ignores shards after an empty shard 0',
   needs='more than one thread, the parallel insert path (EGGLOG_PARALLEL_TABLE_OP_CUTOFF low), a batch that leaves shard 0 empty, semi-naive evaluation',
   caught={'C03': 'outcome-mismatch (threaded sub-batch)', 'C06': 'outcome-mismatch', 'C16': 'subset-mismatch'}, missed=[], strengthened=None),
 'C04-container-merge-skips-val-index': dict(prop='C04', change='ContainerEnv::insert_owned no longer re-files the surviving container in val_index when a rebuilt container collides and the incoming id wins',
   needs='a collision of two containers after a union with the rebuilt one holding the smaller id, then a second union displacing an element of the survivor handled by incremental container rebuild (> 1000 containers, or the container_incremental_rebuild knob)',
   caught={'C04': 'non-canonical-id', 'C14': 'invariant (non-canonical id in a container)'}, missed=['C04 before strengthening'],
   strengthened='C04 drew the rebuild knobs only in its threaded sub-batch (1 case in 10); now half of the serial cases draw them, container histories get unions among container elements and the container knob forced in half of them (caught at VERIF_SEED 1, 20260923 and 7)'),
 'C05-staged-merge-args-swapped': dict(prop='C05', change='StagedOutputs::insert passes (new, old) to the merge function',
   needs='parallel insert path, two writes to one key in one round, the later one dominating',
   caught={'C05': 'outcome-differs-from-model', 'C06': 'outcome-mismatch', 'C16': 'scan-mismatch'}, missed=[], strengthened=None),
 'C06-staged-stale-undercount': dict(prop='C06', change='the stale-row counter is not incremented when a staged row is merged within the batch',
   needs='parallel insert path, an improving second write to one key in one batch',
   caught={'C06': 'dump-mismatch / dump-panic', 'C05': 'read-api-panic', 'C16': 'len-mismatch', 'C04': 'size-disagrees'}, missed=[], strengthened=None),
 'C07-extract-reconstruct-through-subsumed': dict(prop='C07', change='Extractor::bellman_ford reconstruction no longer skips subsumed rows when choosing the parent edge of a class',
   needs='a subsumed row whose tree cost ties the legal minimum of its class and that is scanned first; the class reached through best-term reconstruction',
   caught={'C07': 'variant-bad-node (extracted term contains a subsumed node)'}, missed=[], strengthened=None),
 'C08-table-clone-empty-rebuild-index': dict(prop='C08', change='Clone for SortedWritesTable builds the copy with a rebuild index over no columns',
   needs='a push/pop or EGraph::clone, then the incremental table rebuild (> 10000 rows or the table_incremental_rebuild knob) or the container dirty-id refresh on the copy',
   caught={'C08': 'bracket-leaked-outcome', 'C01': 'invariant'}, missed=[], strengthened=None),
 'C09-duplicate-rule-replaces-original': dict(prop='C09', change='EGraph::add_rule inserts the rule before reporting RuleAlreadyExists, so the refused rule replaces the one declared first',
   needs='a rule with a name, a second rule under the same name (refused), then a run of that ruleset',
   caught={'C09': 'rejected-command-left-a-trace'}, missed=['C09 before strengthening'],
   strengthened='the ill-typed catalogue (F5) had duplicate declarations but not duplicate rules; now half of the rules of S1 carry :name, duplicate rule/rewrite texts are in the duplicate-declaration fault, and a new fault re-declares an existing rule name with another head (panic action or empty)'),
 'C10-nested-combined-stale-cache': dict(prop='C10', change='step_rules caches the flattened rule list of a combined ruleset and invalidates it only through direct members',
   needs='outer = combined(inner..), inner = combined(leaf..); outer run once; a rule added to leaf; outer run again',
   caught={'C10': 'law-combined-dump'}, missed=['C10 before strengthening'],
   strengthened="C10's combined-ruleset law used one level of combination; now every other case builds a nested combination, runs it, adds rules and runs it again"),
 'C11-container-function-no-rebuild-rule': dict(prop='C11', change='the term/proof encoding emits no view-rebuild rule for a table whose only rebuildable columns are containers of e-classes',
   needs='a function from base values to a container of an eq sort (:merge new), a stored container whose element is displaced by a union, an observation (check, size)',
   caught={'C11': 'term-encoding-refuses-what-plain-accepts (a check that passes on the plain engine fails encoded)'}, missed=['C11 before strengthening', 'C14 (plain engine only)'],
   strengthened='C11 had container sorts switched off; a third of the cases now end with a container-valued function and a constructor over a container, a union displacing a stored element, checks and print-size'),
 'C12-checker-equality-fact-one-side': dict(prop='C12', change='the proof checker accepts an equality body fact when only one of its two sides matches the premise (|| became &&)',
   needs='a proof (or checking program) altered on one side of a rule-body equality whose other variable does not reach the head',
   caught={'C12': 'checker-accepts-altered-proof (H9 single-point alteration of a proposition is still accepted)'}, missed=[], strengthened=None),
 'C13-both-subsumed-skip-merge': dict(prop='C13', change='the merge callback returns early when both colliding rows are subsumed',
   needs='two subsumed congruent rows re-keyed onto each other by a union',
   caught={'C13': 'engine-fails-model-accepts (check / extract)'}, missed=['C01 (no subsume in its fragment)', 'C04'], strengthened=None),
 'C14-container-reinsert-not-indexed': dict(prop='C14', change='ContainerEnv::insert_owned (vacant branch) adds the container to val_index only when its id was not registered before',
   needs='incremental container rebuild (> 1000 containers or the knob), a container rewritten in place keeping its id, then a second union displacing the new element, no full rebuild in between',
   caught={'C14': 'invariant (non-canonical id in a container)'}, missed=[], strengthened=None),
 'C16-sortchecker-duplicate-offset': dict(prop='C16', change='SortChecker::update_offsets pushes an offset entry when the batch timestamp equals the current maximum (>= for >)',
   needs='a sorted table, the parallel insert path, two consecutive merges at one timestamp, a fast_subset constraint on the sort column before the next compaction',
   caught={'C16': 'subset-mismatch', 'C03': 'outcome-mismatch / process-abort (debug assertion)'}, missed=[], strengthened=None),
 'C17-same-set-validates-wrong-root': dict(prop='C17', change='ConcurrentUnionFind::same_set resolves the root of the larger id first and then validates the other root',
   needs='a same_set call on ids already equal, interleaved with a union that moves the representative between its two root look-ups',
   caught={'C17': 'not-linearizable (minimised history and schedule)'}, missed=[], strengthened=None),
 'C18-held-back-matches-stay-stale': dict(prop='C18', change='the scheduler step skips re-canonicalising buffered matches when the rule is still seeking',
   needs='a policy that holds a match back and keeps seeking, a union that makes an id in the held match non-canonical, a later step choosing it',
   caught={'C18': 'non-canonical-id'}, missed=[], strengthened=None),
 'C19-backup-worker-only-single': dict(prop='C19', change='the backup worker is spawned only on pools with one worker',
   needs='>= 2 workers and more than 64 x workers open nested scopes',
   caught={'C19': 'deadlock (scheduler verdict, minimised to (pool 2) (chain 71 2))'}, missed=['C19 before strengthening'],
   strengthened='chain depth was at most 70 whatever the pool size; now relative to the pool size, plus concurrent chains'),
 'C20-random-hasher-in-refresh-rows': dict(prop='C20', change='refresh_rows_for_values collects candidate rows in a hashbrown::HashSet with its randomly seeded default hasher',
   needs='>= 2 rows of one table that mention containers rebuilt in place (contents change, id stays), and an observation of physical row order (print-function)',
   caught={'C20': 'same-process-differs'}, missed=['C20 before strengthening'],
   strengthened='generic container sessions never produced two dirty rows followed by print-function; a third of the cases now end with rows over in-place rebuilt Vec/Set/MultiSet values, a union and print-function; the program is repeated 6 times in process; for this property a replay must reproduce the violation class, the differing line may vary'),
}
for id, t in T.items():
    d = os.path.join(S, id)
    if not os.path.isdir(d):
        print('missing', id); continue
    confirm = None
    cp = os.path.join(d, 'confirm.json')
    if os.path.exists(cp):
        confirm = json.load(open(cp))
    meta = {
        'id': id,
        'breaks_property': t['prop'],
        'change': t['change'],
        'needs_to_manifest': t['needs'],
        'origin': 'sub-agent given only the property text and a private worktree of /repo under /tmp (agent_meta.json is its own report)',
        'demonstration': {'files': sorted(f for f in os.listdir(d) if f.startswith('demo')), 'command': open(os.path.join(d, 'demo_cmd.sh')).read().strip() if os.path.exists(os.path.join(d, 'demo_cmd.sh')) else None,
                          'convention': 'run in the root of a checkout with SEEDED=<this directory>; exit 0 = property holds'},
        'what_i_ran': RAN,
        'confirmation': confirm,
        'caught_by': t['caught'],
        'missed_by': t['missed'],
        'check_strengthened': t['strengthened'],
    }
    json.dump(meta, open(os.path.join(d, 'meta.json'), 'w'), indent=1)
print('wrote', len(T))
