#!/usr/bin/env python3
"""Regenerates /verif/MANIFEST.json from the table below (single source of truth)."""
import json, subprocess, os
ROOT = os.path.dirname(os.path.dirname(os.path.abspath(__file__)))
props = [json.loads(l) for l in open(os.path.join(ROOT, "properties.jsonl"))]
ids = [p["id"] for p in props]

CLAIMED = {
 "C03": dict(cat="exploration", ref="DESIGN §5 C03",
   text="Seeded search over monotone programs and histories: every history runs in lock-step on a semi-naive engine, an engine with semi-naive switched off and one with every rule marked :naive; outcomes and id-free canonical dumps are compared after every single iteration and command; a sub-batch runs 2-8 threads under the token scheduler with all parallel cut-offs drawn near 0. Sampling, not proof.",
   note="Trusts the harness' canonical dump (least-term naming through the public read API). F4 faults are excluded on purpose (the two modes may legitimately stop at different matches).",
   tech="deterministic simulation (seeded histories + token-passing scheduler), differential oracle semi-naive vs naive"),
 "C17": dict(cat="exploration", ref="DESIGN §5 C17",
   text="Sequential union-find: seeded union/find/reset/reserve sequences checked after every operation against a partition model (find = class minimum, find_naive agrees, path compression keeps the partition). Concurrent union-find: 2-4 simulated threads under the seeded token scheduler with yield points between every load and CAS and around the buffer resize; each recorded history (invoke/return stamped by a global event counter) is checked for linearizability against the partition model by a memoised Wing-Gong search, then the quiescent partition must equal connectivity with minimum representatives. Seeded sampling of interleavings, not enumeration.",
   note="A serialising scheduler cannot see weak-memory effects; threads are descheduled only at hook sites. The sequential specification of union's result is (smaller class minimum, larger class minimum). One open known finding (stale parent reported by a linking union) is classified separately so that any other linearizability violation is still reported.",
   tech="deterministic simulation (token-passing scheduler, seeded random/sticky/PCT/starve policies) + linearizability checking against a partition model"),
 "C19": dict(cat="exploration", ref="DESIGN §5 C19",
   text="The real egglog-concurrency code (thread pool with nested scopes, helping workers and backup workers; ReadOptimizedLock; ConcurrentVec; ParallelVecWriter; NotificationList; Notification; ResettableOnceLock; SharedArena) runs under the seeded token scheduler with every hook site eligible. Oracles: every task ran exactly once on the first line after scope returns, a panic payload reaches the caller after all tasks finished, deadlock is a scheduler verdict (no runnable thread), no torn read / overlapping writers on the two-word invariant, nothing lost or duplicated in the vectors and lists. Seeded sampling of interleavings.",
   note="Blocking receive/wait/join are replaced by poll-and-yield variants of the same operation; data races on plain memory and weak-memory effects are invisible to a serialising scheduler (Miri complement planned for the thorough tier).",
   tech="deterministic simulation (token-passing scheduler with seeded policies and per-run site subsets), scheduler-decided deadlock detection"),
 "C04": dict(cat="fault_enumeration", ref="DESIGN §5 C04",
   text="Seeded histories with injected faults at arbitrary positions: commands that die while executing (rule panic after staged unions, flaky primitive failing at its k-th invocation inside a rule run, :no-merge conflict, failed lookup, arithmetic failure, failing merge function), commands rejected before executing, I/O failures; serial and threaded under the token scheduler. After every single operation the consistency invariant is evaluated through the public read API: unique key per table, every stored e-class id (in columns and inside containers) is its own representative, get_size equals the scan, serialize() describes the same rows, and pairs of terms the dump shows in one class must pass (check (= a b)) at once.",
   note="Fault positions and kinds are sampled by the seed, not enumerated exhaustively. A failed command has no promised partial effect; only consistency is demanded.",
   tech="deterministic simulation with fault injection (generated failing commands + flaky primitive at k-th call), invariant oracle after every operation"),
 "C06": dict(cat="exploration", ref="DESIGN §5 C06",
   text="Each seeded program is run with one thread and then with 2-8 pool workers under the token scheduler, four schedules per program, with every EGGLOG_PARALLEL_* cut-off, fork depth, action batch size and the incremental/full rebuild and compaction thresholds drawn per run so that parallel insert/delete/rehash, parallel rebuild, strata-parallel merge_all, parallel container rebuild and parallel index construction run on tiny inputs (reach measured by probes). Per-command outcomes, updated flags, sizes, extraction costs and id-free dumps must agree after every command; deadlock is a scheduler verdict.",
   note="Threads are descheduled only at hook sites; contention inside uninstrumented primitives (DashMap shard locks, SegQueue) is never produced. Id-order dependent results are not generated.",
   tech="deterministic simulation (real engine under the token-passing scheduler, seeded policies, per-run configuration swarm), differential oracle vs the single-threaded run"),
 "C09": dict(cat="fault_enumeration", ref="DESIGN §5 C09",
   text="Sessions S1; bad; S2 against S1; S2 in plain, term-encoding and proof mode, with bad drawn from byte-level damage (truncation, unbalanced and 10^4-deep parentheses, random bytes), a catalogue of ill-typed mutations, run-time failures and I/O failures, inserted at a seeded position; each session runs in a worker process so that an abort or stack overflow is an observation. No command may panic or kill the process; a command rejected before execution must leave every later outcome and dump identical to the session without it (S2 deliberately re-declares and re-uses the names the bad command touched); after an execution failure the invariant of C04 holds.",
   note="Which error kinds are pre-execution rejections is fixed in exec::is_rejection. Two open known findings (proof/term mode keeps a declaration refused as UnsupportedProofCommand) are keyed by violation class and failing shape.",
   tech="deterministic simulation with fault injection (bad-input catalogue at seeded positions), differential oracle against the fault-free session, process-death observation"),
 "C08": dict(cat="exploration", ref="DESIGN §5 C08",
   text="Seeded triples (P, Q, R): one engine runs P; push; Q; pop; R, another P; R. Q declares new constructors, relations, functions, rulesets, rules and globals, writes, runs, fails (injected F4/F5/F6 faults) and nests brackets; R re-declares the names Q introduced, possibly with other signatures, and keeps writing, running, extracting and printing. Every command of R must give the same outcome and the same id-free dump on both engines. Clone cases: original and clone are driven by independent sequences (declaring the same new names on both sides) interleaved by the seed and each compared with a solo engine.",
   note="One open known finding (shared name-indexed action registry between a clone and its original) is keyed by its own violation class. Registered schedulers across push/pop belong to C18.",
   tech="deterministic simulation (snapshots at seeded instants, injected failures inside the bracket), differential oracle against the history without the bracket / the solo run"),
 "C16": dict(cat="exploration", ref="DESIGN §5 C16",
   text="Seeded operation sequences on the public core-relations API (SortedWritesTable with key arity 0-4, with/without sort column, five merge functions; DisplacedTable; staging through four buffer routes; merge_all incl. the strata path; clear; Database::clone and swap; apply_rebuild; refresh_rows_for_values) in lock-step with a BTreeMap model. After every operation: len, point lookups over the whole key domain, full scans by three routes, constrained scans and fast_subset; at explicit read operations: refine/refine_ref/split_fast_slow/scan_project, updates_since marks, cached column indexes and 1-3 atom rule-set queries against a nested-loop evaluation. A sub-batch runs in fresh processes with every parallel cut-off at 0.",
   note="Preconditions of the API (monotone sort column, merge before clone/query) are respected by construction; behaviour that is unspecified (scan order, staged unions surviving a clear of the union-find table) is canonicalised away.",
   tech="deterministic simulation of operation histories against a keyed-map reference model, checked at every step"),
 "C01": dict(cat="exploration", ref="DESIGN §5 C01",
   text="Seeded monotone histories (constructors, relations, lattice functions, rules, rewrites, birewrites with guards, top-level unions/sets/lets, runs, schedules, push/pop) run in lock-step on the engine and on a deliberately naive congruence-closure reference model: after every command and every single iteration the engine's id-free dump must equal the model's, and pairs of existing terms are asked through (check (= a b)) positively and negatively; probe rules copy constructor matches into fresh relations. A tenth of the cases run threaded under the token scheduler; thresholds are drawn per run.",
   note="The reference model (sim/src/model.rs) is trusted as the oracle; it is itself cross-checked by the model-free differentials (C03, C06, C08, C10). Term pairs come from the terms present in the database. Runs that leave the modelled fragment are inconclusive and counted.",
   tech="deterministic simulation (seeded histories, token-passing scheduler, threshold knobs) with refinement checking against an executable reference model at every step"),
 "C02": dict(cat="exploration", ref="DESIGN §5 C02",
   text="One seeded conjunctive rule (chain, star, cycle, clique, ternary tree or random connected hypergraph over 2-5 variables, decorated with constants, repeated variables, unary filters, primitive guards, computed equalities, duplicate atoms) over seeded relations with 0-60 skewed rows, run twice with more facts in between. The derived relation must equal the reference model's nested-loop evaluation and be identical on engines with tree decomposition on/off (global flag and :no-decomp), semi-naive on/off, and threaded under the token scheduler with the db-level cut-off at 0. Probes report how many bodies were planned as decomposed (and with >= 3 bags).",
   note="Mostly a quantifier over inputs: the simulator contributes the configuration swarm and the controlled parallel join; the rest is seeded generation against a reference evaluator, stated as such in the evidence.",
   tech="deterministic simulation over a configuration swarm + reference nested-loop evaluator"),
 "C05": dict(cat="exploration", ref="DESIGN §5 C05",
   text="For lattice functions (min, max, or, and, set-union, set-intersect; integer and e-class keys) the seed fixes a multiset of writes per key and then permutes and batches it across top-level sets, rule heads in several rulesets and iterations, re-delivery, and unions that collapse keys; a third of the cases run threaded under the token scheduler with the table-op cut-off at 0/1 so that the serial, per-shard parallel, in-batch staging and rebuild re-insertion collision paths all run. The stored value must equal the reference model's fold after every command; a :no-merge conflict must be an error.",
   note="Merge expressions are ACI by construction. After a :no-merge conflict the rest of the history is not compared.",
   tech="deterministic simulation (seeded write permutations/batching, token scheduler, parallel cut-offs) against the reference model's fold"),
 "C07": dict(cat="exploration", ref="DESIGN §5 C07",
   text="Extraction is queried on e-graphs reached through seeded histories (cyclic classes, zero and near-u64::MAX costs, ties, :unextractable, subsume, delete, containers, snapshots, threaded row orders). Each result is audited against the reference model: the term evaluates to the root's class, every node is a present, non-subsumed row of an extractable constructor, the recomputed saturating tree cost equals the reported cost and the model's least-fixpoint minimum; failure iff the model has no finite term; variants are in-class and rooted at distinct e-nodes; never a panic.",
   note="The extractor is sequential and pure: the simulator supplies states and row orders, the oracle decides. One open known finding (panic with saturated costs, extract.rs:491) is keyed by its panic site.",
   tech="deterministic simulation supplying reachable e-graphs + audit of every extraction against the reference model"),
 "C10": dict(cat="exploration", ref="DESIGN §5 C10",
   text="After a seeded prefix history the engine is cloned and schedule expressions related by a law run side by side: (run R n) vs n commands; nested vs flat repeat; (saturate s) vs repetition to a fixpoint, then s again must report updated=false on an unchanged database, and saturate is idempotent; seq associativity and unit; combined ruleset vs one ruleset with the same rules, also after a rule is added to a sub-ruleset; :until vs the manual check-then-run loop. Dumps and updated flags must agree, and the dump must equal the reference model's run of the same schedule.",
   note="A metamorphic oracle over a deterministic function; the simulated dimension is the prefix history, thresholds and (sub-batch) thread schedule.",
   tech="deterministic simulation of prefix histories + metamorphic schedule laws on engine clones + reference model"),
 "C13": dict(cat="exploration", ref="DESIGN §5 C13",
   text="Seeded histories interleave inserts, subsume (top level, rule heads, :subsume rewrites), unions that merge a subsumed row with a congruent non-subsumed one in either order, re-insertion, push/pop, and a final deletion phase (top-level and rule-head deletes, re-insertion of deleted tuples) followed by probe rules, checks and extractions. After every command the dump including each row's subsumed flag must equal the reference model's (max-combine, rules see only non-subsumed rows, check sees them, congruence still uses them, a deleted row is gone and every other row unchanged); extraction costs equal the model's minimum over non-subsumed rows.",
   note="Deletions are confined to a final phase because the reference model evaluates naively (a naive re-run would re-derive a deleted row, semi-naive does not). The updated flag is not compared here.",
   tech="deterministic simulation (seeded histories, thresholds forcing each row-rewriting path, token scheduler) with refinement checking against the reference model"),
 "C14": dict(cat="exploration", ref="DESIGN §5 C14",
   text="Container sorts over eq-sorts (Vec, Set, MultiSet, Map with integer keys, Pair, one nested level), tables keyed by and holding containers, rules mentioning ground containers (matchable only modulo the current equalities) and unions among their elements. After every command and single iteration the dump with container contents expanded must equal the reference model's (equal contents = one value, rows keyed by equal containers merged), and a naive engine must agree with the semi-naive one. Both rebuild strategies and serial/parallel container rebuild are forced per run by knobs, cut-offs and the token scheduler.",
   note="Map keys are integers, so key collisions (id-order dependent, outside the claim) do not occur; id-order dependent primitives are not generated.",
   tech="deterministic simulation (knobs for incremental/full rebuild, parallel container cut-offs 0, token scheduler) with refinement checking against the reference model plus naive/semi-naive differential"),
 "C18": dict(cat="exploration", ref="DESIGN §5 C18",
   text="The Scheduler trait is the seam: a recording scheduler with seeded policies (all; none for k calls then all; random subsets; one at a time; descending indices with duplicates; back-off through the boolean result) steps named rules while the history unions ids held in residual matches, inserts, subsumes, pushes/pops, clones and injects failing rules between the offering and the applying step. Oracles per step: every model match of a rule body (projected to the head's variables, modulo current equalities) has been offered at a seeking step; the previous residual is presented again; newly offered matches are real non-subsumed matches; the database equals the reference model applying exactly the chosen matches canonicalised at apply time; a choose-all scheduler stays equal to a step_rules twin; I(E) after every step; rulesets and schedulers survive a failing step.",
   note="Matches are compared after projection to the head's variables. Rules whose head variables were renamed by the compiler cannot be read through Match::get_value (it unwraps) and are checked by count only. Two open known findings (dead scheduler after push/pop/clone) are keyed by class plus a snapshot marker in the detail.",
   tech="deterministic simulation through the Scheduler seam (seeded adversarial policies, state changes between offer and apply) with reference-model and twin-engine oracles"),
 "C20": dict(cat="fault_enumeration", ref="DESIGN §5 C20",
   text="Each program (seeded, or an .egg file of the repository that needs no external facts) runs twice in one process and once in each of seven child processes under environment perturbations: default, affinity 16 CPUs and 2 CPUs (DashMap's default shard count depends on available parallelism) versus the worker's single CPU, ASLR off via setarch -R (hash seeds), 200 extra environment variables, cwd=/, 256 KiB less stack. Transcripts hold every command output verbatim and every run report without durations (sorted by rule name) and must be byte-identical.",
   note="The perturbation set is enumerated completely per program; programs are sampled. Read::tables() order and RunReport's Display ordering by measured time are outside the statement and not compared.",
   tech="deterministic simulation with environment fault injection across OS processes (affinity, ASLR, environment, cwd, stack), byte-level transcript comparison"),
 "C11": dict(cat="translation_validation", ref="DESIGN §5 C11",
   text="Seeded sessions accepted by program_supports_proofs (constructors, relations, merge functions, rules, rewrites, subsume, delete, globals, push/pop, extract, print-size), with rejected commands inserted at seeded positions, run command by command on the plain engine and on the term-encoded and proof-encoded engines: success/failure of every command and the snapshot_stable_under_proof_encoding text of its outputs (check outcomes, table sizes, extraction costs) must agree; then the encoded program returned by resolve_program is printed, re-parsed and run on a plain engine and must produce the same text.",
   note="The plain engine is the reference model of the encoded ones. Open known findings (the encoding treats subsume/delete differently: sizes after subsuming an absent term, check on subsumed rows, extract after delete) are keyed by class plus a tag naming the features the history uses, so histories without subsume/delete are fully checked.",
   tech="deterministic simulation of seeded sessions with injected rejected commands; translation validation of every command across plain / term-encoding / proofs / print-reparse"),
 "C12": dict(cat="exploration", ref="DESIGN §5 C12",
   text="Seeded supported programs run on EGraph::new_with_proofs() next to the plain engine; 6-14 true and false facts over the terms of the database are asked through (prove ..) on a clone: success iff (check ..) succeeds on the plain engine (when the history has no subsume), never a panic (prove checks its proof before and after simplification). Every returned proof is walked structurally through the public API and accepted by the checker against the unaltered program; then fault injection through hook H9: re-checked without a rule it uses, without the top-level facts, and after single-point alterations of the proof object (Trans operands swapped, Congr index moved, rule premise dropped, term substituted) it must be rejected.",
   note="Alterations are applied only where they are certainly unjustified. One open known finding (prove_exists panics because the checker refuses a proof over a function row whose key was canonicalised) is keyed by its panic site.",
   tech="deterministic simulation of seeded proof-mode histories + fault injection into checking program and proof object (hook H9)"),
}
NOT_YET = "check not built yet in this round; will be claimed once its check is silent on the unchanged tree and sensitive to seeded breakage"
NA = {
 "C15": "pure function of the syntax tree (parse(print(ast))): no schedule, clock, fault, history or configuration can influence it, so deterministic simulation with fault injection has nothing to act on (DESIGN §5 C15)",
}
hooks = subprocess.run(["git","-C","/repo","log","--format=%h %s","--grep=^verif-hooks"],capture_output=True,text=True).stdout.strip().splitlines()
m = {
 "version": 1,
 "setup_cmd": "./check --build",
 "hooks": {
   "guard": "cargo feature verif-hooks (egglog, egglog-bridge, egglog-core-relations, egglog-union-find, egglog-concurrency)",
   "enable": "the simulator crate /verif/sim depends on /repo by path with features=[\"verif-hooks\"]; ./check rebuilds it with cargo build --release --offline before every run",
   "baseline_off_cmd": "cd /repo && cargo nextest run --workspace --no-fail-fast --tool-config-file pb:/w/lib/nextest.toml --profile pb --test-threads 8 --offline",
   "source_commits": [h.split()[0] for h in hooks][::-1],
   "add_only": False,
 },
 "engines": [
   {"name":"egsim","path":"/verif/sim","serves_properties":sorted(CLAIMED),"kind_free_text":"deterministic simulator: seeded workload/fault generator, token-passing thread scheduler hooked into egglog-concurrency, reference models and differential oracles, shrinker, replay"}
 ],
 "checks": [],
 "not_applicable": [],
 "notes": "All checks: ./check <id> [quick|thorough]; exit 0 clean / 1 VIOLATION / 2 harness error. VERIF_SEED selects the seed stream (default 20260923). Replay: ./check --replay <file>.",
}
for i in ids:
    if i in CLAIMED:
        c = CLAIMED[i]
        m["checks"].append({
          "property_id": i,
          "quick_cmd": f"./check {i} quick",
          "thorough_cmd": f"./check {i} thorough",
          "evidence_file": f"/verif/evidence/{i}.json",
          "replay_cmd_template": "./check --replay {path}",
          "engine": "egsim",
          "level_claimed": {"category": c["cat"], "text": c["text"], "design_ref": c["ref"]},
          "level_note": c["note"],
          "technique": c["tech"],
        })
    else:
        m["not_applicable"].append({"property_id": i, "reason": NA.get(i, NOT_YET)})
json.dump(m, open(os.path.join(ROOT,"MANIFEST.json"),"w"), indent=1)
print("claimed:", sorted(CLAIMED), "unclaimed:", [x["property_id"] for x in m["not_applicable"]])
